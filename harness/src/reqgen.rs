//! Structured FUSE requests: grammar, encoder (through the kernel layout
//! table) and the protocol-level oracle "which operation with which arguments
//! does this request denote".
use crate::codec::{self, c, Hdr};
use crate::engine::hexbytes;
use crate::mockfs::hex;
use proptest::prelude::*;
use serde::{Deserialize, Serialize};
use serde_json::{json, Value};
use std::collections::BTreeMap;

#[derive(Clone, Debug, Serialize, Deserialize, PartialEq)]
pub struct Req {
    pub op: String,
    pub hdr: Hdr,
    pub fields: BTreeMap<String, u64>,
    pub names: Vec<NameB>,
    #[serde(with = "hexbytes")]
    pub payload: Vec<u8>,
    pub items: Vec<(u64, u64)>,
}

#[derive(Clone, Debug, Serialize, Deserialize, PartialEq)]
pub struct NameB(#[serde(with = "hexbytes")] pub Vec<u8>);

pub struct OpDef {
    pub op: &'static str,
    /// kernel struct of the fixed body ("" = none)
    pub body: &'static str,
    /// number of bytes of `body` actually sent (0 = whole struct)
    pub body_len: usize,
    pub names: usize,
    pub payload: bool,
    /// struct of list items following the body ("" = none); count field name
    pub item: &'static str,
    /// the protocol requires a reply
    pub replies: bool,
}

pub const OPS: &[OpDef] = &[
    OpDef { op: "LOOKUP", body: "", body_len: 0, names: 1, payload: false, item: "", replies: true },
    OpDef { op: "FORGET", body: "fuse_forget_in", body_len: 0, names: 0, payload: false, item: "", replies: false },
    OpDef { op: "GETATTR", body: "fuse_getattr_in", body_len: 0, names: 0, payload: false, item: "", replies: true },
    OpDef { op: "SETATTR", body: "fuse_setattr_in", body_len: 0, names: 0, payload: false, item: "", replies: true },
    OpDef { op: "READLINK", body: "", body_len: 0, names: 0, payload: false, item: "", replies: true },
    OpDef { op: "SYMLINK", body: "", body_len: 0, names: 2, payload: false, item: "", replies: true },
    OpDef { op: "MKNOD", body: "fuse_mknod_in", body_len: 0, names: 1, payload: false, item: "", replies: true },
    OpDef { op: "MKDIR", body: "fuse_mkdir_in", body_len: 0, names: 1, payload: false, item: "", replies: true },
    OpDef { op: "UNLINK", body: "", body_len: 0, names: 1, payload: false, item: "", replies: true },
    OpDef { op: "RMDIR", body: "", body_len: 0, names: 1, payload: false, item: "", replies: true },
    OpDef { op: "RENAME", body: "fuse_rename_in", body_len: 0, names: 2, payload: false, item: "", replies: true },
    OpDef { op: "LINK", body: "fuse_link_in", body_len: 0, names: 1, payload: false, item: "", replies: true },
    OpDef { op: "OPEN", body: "fuse_open_in", body_len: 0, names: 0, payload: false, item: "", replies: true },
    OpDef { op: "READ", body: "fuse_read_in", body_len: 0, names: 0, payload: false, item: "", replies: true },
    OpDef { op: "WRITE", body: "fuse_write_in", body_len: 0, names: 0, payload: true, item: "", replies: true },
    OpDef { op: "STATFS", body: "", body_len: 0, names: 0, payload: false, item: "", replies: true },
    OpDef { op: "RELEASE", body: "fuse_release_in", body_len: 0, names: 0, payload: false, item: "", replies: true },
    OpDef { op: "FSYNC", body: "fuse_fsync_in", body_len: 0, names: 0, payload: false, item: "", replies: true },
    // FUSE_SETXATTR_EXT is never negotiated by the crate, so the kernel sends the 8-byte compat layout
    OpDef { op: "SETXATTR", body: "fuse_setxattr_in", body_len: 8, names: 1, payload: true, item: "", replies: true },
    OpDef { op: "GETXATTR", body: "fuse_getxattr_in", body_len: 0, names: 1, payload: false, item: "", replies: true },
    OpDef { op: "LISTXATTR", body: "fuse_getxattr_in", body_len: 0, names: 0, payload: false, item: "", replies: true },
    OpDef { op: "REMOVEXATTR", body: "", body_len: 0, names: 1, payload: false, item: "", replies: true },
    OpDef { op: "FLUSH", body: "fuse_flush_in", body_len: 0, names: 0, payload: false, item: "", replies: true },
    OpDef { op: "INIT", body: "fuse_init_in", body_len: 0, names: 0, payload: false, item: "", replies: true },
    OpDef { op: "OPENDIR", body: "fuse_open_in", body_len: 0, names: 0, payload: false, item: "", replies: true },
    OpDef { op: "READDIR", body: "fuse_read_in", body_len: 0, names: 0, payload: false, item: "", replies: true },
    OpDef { op: "RELEASEDIR", body: "fuse_release_in", body_len: 0, names: 0, payload: false, item: "", replies: true },
    OpDef { op: "FSYNCDIR", body: "fuse_fsync_in", body_len: 0, names: 0, payload: false, item: "", replies: true },
    OpDef { op: "GETLK", body: "fuse_lk_in", body_len: 0, names: 0, payload: false, item: "", replies: true },
    OpDef { op: "SETLK", body: "fuse_lk_in", body_len: 0, names: 0, payload: false, item: "", replies: true },
    OpDef { op: "SETLKW", body: "fuse_lk_in", body_len: 0, names: 0, payload: false, item: "", replies: true },
    OpDef { op: "ACCESS", body: "fuse_access_in", body_len: 0, names: 0, payload: false, item: "", replies: true },
    OpDef { op: "CREATE", body: "fuse_create_in", body_len: 0, names: 1, payload: false, item: "", replies: true },
    OpDef { op: "INTERRUPT", body: "fuse_interrupt_in", body_len: 0, names: 0, payload: false, item: "", replies: false },
    OpDef { op: "BMAP", body: "fuse_bmap_in", body_len: 0, names: 0, payload: false, item: "", replies: true },
    OpDef { op: "DESTROY", body: "", body_len: 0, names: 0, payload: false, item: "", replies: true },
    OpDef { op: "IOCTL", body: "fuse_ioctl_in", body_len: 0, names: 0, payload: true, item: "", replies: true },
    OpDef { op: "POLL", body: "fuse_poll_in", body_len: 0, names: 0, payload: false, item: "", replies: true },
    OpDef { op: "NOTIFY_REPLY", body: "fuse_notify_retrieve_in", body_len: 0, names: 0, payload: true, item: "", replies: false },
    OpDef { op: "BATCH_FORGET", body: "fuse_batch_forget_in", body_len: 0, names: 0, payload: false, item: "fuse_forget_one", replies: false },
    OpDef { op: "FALLOCATE", body: "fuse_fallocate_in", body_len: 0, names: 0, payload: false, item: "", replies: true },
    OpDef { op: "READDIRPLUS", body: "fuse_read_in", body_len: 0, names: 0, payload: false, item: "", replies: true },
    OpDef { op: "RENAME2", body: "fuse_rename2_in", body_len: 0, names: 2, payload: false, item: "", replies: true },
    OpDef { op: "LSEEK", body: "fuse_lseek_in", body_len: 0, names: 0, payload: false, item: "", replies: true },
    OpDef { op: "COPY_FILE_RANGE", body: "fuse_copy_file_range_in", body_len: 0, names: 0, payload: false, item: "", replies: true },
    OpDef { op: "SETUPMAPPING", body: "fuse_setupmapping_in", body_len: 0, names: 0, payload: false, item: "", replies: true },
    OpDef { op: "REMOVEMAPPING", body: "fuse_removemapping_in", body_len: 0, names: 0, payload: false, item: "fuse_removemapping_one", replies: true },
];

pub fn opdef(op: &str) -> &'static OpDef {
    OPS.iter().find(|o| o.op == op).unwrap_or_else(|| panic!("unknown op {}", op))
}

pub fn body_fields(d: &OpDef) -> Vec<(String, usize)> {
    if d.body.is_empty() {
        return vec![];
    }
    let lim = if d.body_len == 0 { codec::ssize(d.body) } else { d.body_len };
    codec::leaf_fields(d.body)
        .into_iter()
        .filter(|(_, off, sz)| off + sz <= lim && *sz > 0 && *sz <= 8)
        .map(|(n, _, s)| (n, s))
        .collect()
}

impl Req {
    /// Encode the body exactly as a client would (count/size fields are whatever `fields` says).
    pub fn body(&self) -> Vec<u8> {
        let d = opdef(&self.op);
        let mut b = vec![];
        if !d.body.is_empty() {
            let vals: Vec<(&str, u64)> = self.fields.iter().map(|(k, v)| (k.as_str(), *v)).collect();
            let mut s = codec::enc(d.body, &vals);
            if d.body_len != 0 {
                s.truncate(d.body_len);
            }
            // INIT: unused words may carry anything; keep zero
            b.extend(s);
        }
        if !d.item.is_empty() {
            for (x, y) in &self.items {
                let fl = codec::leaf_fields(d.item);
                let it = codec::enc(d.item, &[(fl[0].0.as_str(), *x), (fl[1].0.as_str(), *y)]);
                b.extend(it);
            }
        }
        for n in &self.names {
            b.extend_from_slice(&n.0);
            b.push(0);
        }
        if d.payload {
            b.extend_from_slice(&self.payload);
        }
        b
    }
    pub fn header(&self) -> Hdr {
        let mut h = self.hdr.clone();
        h.opcode = codec::op(&self.op);
        h
    }
    pub fn encode(&self) -> Vec<u8> {
        codec::request(&self.header(), &self.body())
    }
    pub fn f(&self, k: &str) -> u64 {
        *self.fields.get(k).unwrap_or(&0)
    }

    /// Size of the reply body a kernel would provide room for (beyond the 16-byte header).
    pub fn reply_room(&self) -> usize {
        match self.op.as_str() {
            "LOOKUP" | "SYMLINK" | "MKNOD" | "MKDIR" | "LINK" => codec::ssize("fuse_entry_out"),
            "GETATTR" | "SETATTR" => codec::ssize("fuse_attr_out"),
            "READLINK" => 4096,
            "OPEN" | "OPENDIR" => codec::ssize("fuse_open_out"),
            "READ" | "READDIR" | "READDIRPLUS" => self.f("size") as usize,
            "WRITE" => codec::ssize("fuse_write_out"),
            "STATFS" => codec::ssize("fuse_statfs_out"),
            "GETXATTR" | "LISTXATTR" => (self.f("size") as usize).max(codec::ssize("fuse_getxattr_out")),
            "INIT" => codec::ssize("fuse_init_out"),
            "GETLK" => codec::ssize("fuse_lk_out"),
            "CREATE" => codec::ssize("fuse_entry_out") + codec::ssize("fuse_open_out"),
            "BMAP" => codec::ssize("fuse_bmap_out"),
            "IOCTL" => codec::ssize("fuse_ioctl_out") + self.f("out_size") as usize,
            "POLL" => codec::ssize("fuse_poll_out"),
            "LSEEK" => codec::ssize("fuse_lseek_out"),
            _ => 0,
        }
    }

    /// The operation call this request denotes, in the MockFs log format.
    /// None = no trait operation exists for this opcode.
    pub fn expected_call(&self) -> Option<Value> {
        let h = &self.hdr;
        let ctx = json!([h.uid, h.gid, h.pid as i32]);
        let nodeid = h.nodeid;
        let nm = |i: usize| hex(&self.names[i].0);
        let f = |k: &str| self.f(k);
        let opt = |cond: bool, v: u64| if cond { json!(v) } else { Value::Null };
        let (m, a, with_ctx): (&str, Value, bool) = match self.op.as_str() {
            "LOOKUP" => ("lookup", json!({"nodeid": nodeid, "name": nm(0)}), true),
            "FORGET" => ("forget", json!({"nodeid": nodeid, "nlookup": f("nlookup")}), true),
            "GETATTR" => (
                "getattr",
                json!({"nodeid": nodeid, "fh": opt(f("getattr_flags") & c("FUSE_GETATTR_FH") != 0, f("fh"))}),
                true,
            ),
            "SETATTR" => {
                let valid = f("valid");
                let expressible = c("FATTR_MODE")
                    | c("FATTR_UID")
                    | c("FATTR_GID")
                    | c("FATTR_SIZE")
                    | c("FATTR_ATIME")
                    | c("FATTR_MTIME")
                    | c("FATTR_ATIME_NOW")
                    | c("FATTR_MTIME_NOW")
                    | c("FATTR_CTIME")
                    | c("FATTR_KILL_SUIDGID");
                let st = json!({
                    "ino": 0, "mode": f("mode"), "nlink": 0, "uid": f("uid"), "gid": f("gid"), "rdev": 0,
                    "size": f("size") as i64, "blksize": 0, "blocks": 0,
                    "atime": f("atime") as i64, "atime_nsec": f("atimensec") as i64,
                    "mtime": f("mtime") as i64, "mtime_nsec": f("mtimensec") as i64,
                    "ctime": f("ctime") as i64, "ctime_nsec": f("ctimensec") as i64,
                });
                (
                    "setattr",
                    json!({"nodeid": nodeid, "fh": opt(valid & c("FATTR_FH") != 0, f("fh")), "valid": valid & expressible, "st": st}),
                    true,
                )
            }
            "READLINK" => ("readlink", json!({"nodeid": nodeid}), true),
            "SYMLINK" => ("symlink", json!({"nodeid": nodeid, "name": nm(0), "linkname": nm(1)}), true),
            "MKNOD" => (
                "mknod",
                json!({"nodeid": nodeid, "name": nm(0), "mode": f("mode"), "rdev": f("rdev"), "umask": f("umask")}),
                true,
            ),
            "MKDIR" => ("mkdir", json!({"nodeid": nodeid, "name": nm(0), "mode": f("mode"), "umask": f("umask")}), true),
            "UNLINK" => ("unlink", json!({"nodeid": nodeid, "name": nm(0)}), true),
            "RMDIR" => ("rmdir", json!({"nodeid": nodeid, "name": nm(0)}), true),
            "RENAME" => (
                "rename",
                json!({"nodeid": nodeid, "oldname": nm(0), "newdir": f("newdir"), "newname": nm(1), "flags": 0}),
                true,
            ),
            "RENAME2" => (
                "rename",
                json!({"nodeid": nodeid, "oldname": nm(0), "newdir": f("newdir"), "newname": nm(1), "flags": f("flags")}),
                true,
            ),
            "LINK" => ("link", json!({"oldnodeid": f("oldnodeid"), "nodeid": nodeid, "name": nm(0)}), true),
            "OPEN" => ("open", json!({"nodeid": nodeid, "flags": f("flags"), "fuse_flags": f("open_flags")}), true),
            "READ" => (
                "read",
                json!({"nodeid": nodeid, "fh": f("fh"), "size": f("size"), "offset": f("offset"),
                       "lock_owner": opt(f("read_flags") & c("FUSE_READ_LOCKOWNER") != 0, f("lock_owner")), "flags": f("flags")}),
                true,
            ),
            "WRITE" => (
                "write",
                json!({"nodeid": nodeid, "fh": f("fh"), "size": f("size"), "offset": f("offset"),
                       "lock_owner": opt(f("write_flags") & c("FUSE_WRITE_LOCKOWNER") != 0, f("lock_owner")),
                       "delayed_write": f("write_flags") & c("FUSE_WRITE_CACHE") != 0,
                       "flags": f("flags"), "fuse_flags": f("write_flags"),
                       "payload_len": self.payload.len(), "payload_fnv": crate::engine::fnv(&self.payload)}),
                true,
            ),
            "STATFS" => ("statfs", json!({"nodeid": nodeid}), true),
            "RELEASE" => {
                let rf = f("release_flags");
                let flush = rf & c("FUSE_RELEASE_FLUSH") != 0;
                let fl = rf & c("FUSE_RELEASE_FLOCK_UNLOCK") != 0;
                (
                    "release",
                    json!({"nodeid": nodeid, "fh": f("fh"), "flags": f("flags"), "flush": flush, "flock_release": fl,
                           "lock_owner": opt(flush || fl, f("lock_owner"))}),
                    true,
                )
            }
            "FSYNC" => (
                "fsync",
                json!({"nodeid": nodeid, "fh": f("fh"), "datasync": f("fsync_flags") & c("FUSE_FSYNC_FDATASYNC") != 0}),
                true,
            ),
            "SETXATTR" => (
                "setxattr",
                json!({"nodeid": nodeid, "name": nm(0), "value": hex(&self.payload), "flags": f("flags")}),
                true,
            ),
            "GETXATTR" => ("getxattr", json!({"nodeid": nodeid, "name": nm(0), "size": f("size")}), true),
            "LISTXATTR" => ("listxattr", json!({"nodeid": nodeid, "size": f("size")}), true),
            "REMOVEXATTR" => ("removexattr", json!({"nodeid": nodeid, "name": nm(0)}), true),
            "FLUSH" => ("flush", json!({"nodeid": nodeid, "fh": f("fh"), "lock_owner": f("lock_owner")}), true),
            "OPENDIR" => ("opendir", json!({"nodeid": nodeid, "flags": f("flags")}), true),
            "READDIR" => ("readdir", json!({"nodeid": nodeid, "fh": f("fh"), "size": f("size"), "offset": f("offset")}), true),
            "READDIRPLUS" => ("readdirplus", json!({"nodeid": nodeid, "fh": f("fh"), "size": f("size"), "offset": f("offset")}), true),
            "RELEASEDIR" => ("releasedir", json!({"nodeid": nodeid, "fh": f("fh"), "flags": f("flags")}), true),
            "FSYNCDIR" => (
                "fsyncdir",
                json!({"nodeid": nodeid, "fh": f("fh"), "datasync": f("fsync_flags") & c("FUSE_FSYNC_FDATASYNC") != 0}),
                true,
            ),
            "GETLK" | "SETLK" | "SETLKW" => {
                let m = match self.op.as_str() {
                    "GETLK" => "getlk",
                    "SETLK" => "setlk",
                    _ => "setlkw",
                };
                (
                    m,
                    json!({"nodeid": nodeid, "fh": f("fh"), "owner": f("owner"),
                           "lk": [f("lk.start"), f("lk.end"), f("lk.type"), f("lk.pid")], "lk_flags": f("lk_flags")}),
                    true,
                )
            }
            "ACCESS" => ("access", json!({"nodeid": nodeid, "mask": f("mask")}), true),
            "CREATE" => (
                "create",
                json!({"nodeid": nodeid, "name": nm(0), "flags": f("flags"), "mode": f("mode"), "umask": f("umask"), "fuse_flags": f("open_flags")}),
                true,
            ),
            "BMAP" => ("bmap", json!({"nodeid": nodeid, "block": f("block"), "blocksize": f("blocksize")}), true),
            "DESTROY" => ("destroy", json!({}), false),
            "IOCTL" => (
                "ioctl",
                json!({"nodeid": nodeid, "fh": f("fh"), "flags": f("flags"), "cmd": f("cmd"), "out_size": f("out_size"),
                       "in_data": if self.payload.is_empty() { Value::Null } else { json!(hex(&self.payload)) }}),
                true,
            ),
            "POLL" => (
                "poll",
                json!({"nodeid": nodeid, "fh": f("fh"), "kh": f("kh"), "flags": f("flags"), "events": f("events")}),
                true,
            ),
            "NOTIFY_REPLY" => ("notify_reply", json!({}), false),
            "BATCH_FORGET" => {
                let l: Vec<Value> = self.items.iter().map(|(a, b)| json!([a, b])).collect();
                ("batch_forget", json!({"items": l}), true)
            }
            "FALLOCATE" => (
                "fallocate",
                json!({"nodeid": nodeid, "fh": f("fh"), "mode": f("mode"), "offset": f("offset"), "length": f("length")}),
                true,
            ),
            "LSEEK" => ("lseek", json!({"nodeid": nodeid, "fh": f("fh"), "offset": f("offset"), "whence": f("whence")}), true),
            "SETUPMAPPING" => (
                "setupmapping",
                json!({"nodeid": nodeid, "fh": f("fh"), "foffset": f("foffset"), "len": f("len"), "flags": f("flags"), "moffset": f("moffset")}),
                true,
            ),
            "REMOVEMAPPING" => {
                let l: Vec<Value> = self.items.iter().map(|(a, b)| json!([a, b])).collect();
                ("removemapping", json!({"nodeid": nodeid, "items": l}), true)
            }
            "INIT" | "INTERRUPT" | "COPY_FILE_RANGE" => return None,
            _ => return None,
        };
        Some(json!({"m": m, "ctx": if with_ctx { ctx } else { Value::Null }, "a": a}))
    }
}

// ------------------------------------------------------------- strategies

pub fn val_of_width(size: usize) -> BoxedStrategy<u64> {
    let max: u64 = if size >= 8 { u64::MAX } else { (1u64 << (size * 8)) - 1 };
    let bits = (size * 8) as u32;
    prop_oneof![
        2 => Just(0u64),
        2 => Just(1u64),
        2 => Just(max),
        1 => Just(max >> 1),
        1 => Just((max >> 1) + 1),
        3 => (0..bits).prop_map(|b| 1u64 << b),
        4 => any::<u64>().prop_map(move |v| v & max),
        2 => (0u64..4096).prop_map(move |v| v & max),
    ]
    .boxed()
}

/// `n` pseudo-random bytes from a seed (a 1 MiB `vec(any::<u8>())` costs a value tree node per byte)
pub fn seeded_bytes(seed: u32, n: usize, name: bool) -> Vec<u8> {
    let mut x = seed | 1;
    (0..n)
        .map(|_| {
            x ^= x << 13;
            x ^= x >> 17;
            x ^= x << 5;
            if name {
                // name alphabet: mostly letters, some '/', '.', arbitrary non-NUL bytes
                match x >> 8 & 15 {
                    0 => b'/',
                    1 => b'.',
                    2 | 3 => (x as u8).max(1),
                    _ => b'a' + (x % 26) as u8,
                }
            } else {
                x as u8
            }
        })
        .collect()
}

pub fn name_strategy(max_len: usize) -> BoxedStrategy<Vec<u8>> {
    let byte = prop_oneof![
        6 => (b'a'..=b'z'),
        1 => Just(b'/'),
        1 => Just(b'.'),
        2 => (1u8..=255u8),
    ];
    prop_oneof![
        6 => proptest::collection::vec(byte.clone(), 1..12),
        2 => proptest::collection::vec(byte.clone(), 0..64),
        1 => proptest::collection::vec(byte.clone(), 200..300),
        1 => if max_len > 8192 {
            (0..=max_len, any::<u32>()).prop_map(|(n, seed)| seeded_bytes(seed, n, true)).boxed()
        } else {
            proptest::collection::vec(byte, 0..max_len.max(1)).boxed()
        },
    ]
    .boxed()
}

pub fn hdr_strategy() -> BoxedStrategy<Hdr> {
    (val_of_width(8), val_of_width(8), val_of_width(4), val_of_width(4), val_of_width(4))
        .prop_map(|(unique, nodeid, uid, gid, pid)| Hdr {
            opcode: 0,
            unique,
            nodeid,
            uid: uid as u32,
            gid: gid as u32,
            pid: pid as u32,
        })
        .boxed()
}

fn big_payload(max_payload: usize) -> BoxedStrategy<Vec<u8>> {
    if max_payload > 65536 {
        (0..max_payload, any::<u32>()).prop_map(|(n, seed)| seeded_bytes(seed, n, false)).boxed()
    } else {
        proptest::collection::vec(any::<u8>(), 0..max_payload.max(1)).boxed()
    }
}

/// the server accepts messages up to MAX_BUFFER_SIZE + BUFFER_HEADER_SIZE bytes in total
pub const MAX_MESSAGE: usize = (1 << 20) + 4096;

/// Well-formed request of one opcode. `big`: allow large names/payloads (thorough tier).
pub fn req_of(op: &'static str, max_payload: usize, max_name: usize) -> BoxedStrategy<Req> {
    let d = opdef(op);
    let fl = body_fields(d);
    let fstrats: Vec<BoxedStrategy<u64>> = fl.iter().map(|(_, s)| val_of_width(*s)).collect();
    let names = proptest::collection::vec(name_strategy(max_name), d.names..=d.names);
    let payload = if op == "WRITE" {
        // payloads up to max_write, the boundary itself included: the advertised max_write is
        // MAX_BUFFER_SIZE = 1 MiB (content from a seed so that the case stays small to generate)
        prop_oneof![
            6 => proptest::collection::vec(any::<u8>(), 0..64),
            4 => proptest::collection::vec(any::<u8>(), 0..4200),
            2 => big_payload(max_payload),
            1 => (prop_oneof![Just(1usize << 20), Just((1 << 20) - 1), Just((1 << 20) - 4096), Just(65536), Just(65537), Just(131072), Just(1 << 19)], any::<u32>())
                .prop_map(|(n, seed)| {
                    let mut x = seed | 1;
                    (0..n)
                        .map(|_| {
                            x ^= x << 13;
                            x ^= x >> 17;
                            x ^= x << 5;
                            x as u8
                        })
                        .collect::<Vec<u8>>()
                }),
        ]
        .boxed()
    } else if d.payload {
        prop_oneof![
            3 => proptest::collection::vec(any::<u8>(), 0..64),
            2 => proptest::collection::vec(any::<u8>(), 0..4200),
            1 => big_payload(max_payload),
        ]
        .boxed()
    } else {
        Just(vec![]).boxed()
    };
    let items = if d.item.is_empty() {
        Just(vec![]).boxed()
    } else {
        prop_oneof![
            4 => proptest::collection::vec((val_of_width(8), val_of_width(8)), 0..6),
            1 => proptest::collection::vec((val_of_width(8), val_of_width(8)), 0..300),
        ]
        .boxed()
    };
    (hdr_strategy(), fstrats, names, payload, items)
        .prop_map(move |(hdr, fv, names, payload, items)| {
            let mut fields = BTreeMap::new();
            for ((n, _), v) in fl.iter().zip(fv.into_iter()) {
                fields.insert(n.clone(), v);
            }
            let mut r = Req {
                op: op.to_string(),
                hdr,
                fields,
                names: names.into_iter().map(|n| NameB(n.into_iter().filter(|b| *b != 0).collect())).collect(),
                payload,
                items,
            };
            normalise(&mut r);
            // "names of every length up to the buffer limit": the whole message has to fit
            let mut guard = 0;
            while r.encode().len() > MAX_MESSAGE && guard < 8 {
                guard += 1;
                let over = r.encode().len() - MAX_MESSAGE;
                if let Some(n) = r.names.iter_mut().max_by_key(|n| n.0.len()) {
                    if n.0.len() > over {
                        let keep = n.0.len() - over;
                        n.0.truncate(keep);
                        continue;
                    }
                    n.0.truncate(1);
                }
                if r.payload.len() > over {
                    let keep = r.payload.len() - over;
                    r.payload.truncate(keep);
                    normalise(&mut r);
                }
            }
            r
        })
        .boxed()
}

/// Structural consistency of a request that did not come straight from `req_of` (fuzz inputs):
/// known opcode, the right number of names, exactly the body fields of that opcode with values
/// that fit their width, no NUL inside names.
pub fn consistent(r: &Req) -> bool {
    let Some(d) = OPS.iter().find(|d| d.op == r.op) else { return false };
    let fl = body_fields(d);
    r.names.len() == d.names
        && r.names.iter().all(|n| !n.0.contains(&0))
        && r.fields.len() == fl.len()
        && fl.iter().all(|(k, w)| r.fields.get(k).is_some_and(|v| *w >= 8 || *v >> (8 * *w as u32) == 0))
        && (d.payload || r.payload.is_empty())
        && (!d.item.is_empty() || r.items.is_empty())
}

/// Make dependent fields consistent with a *well-formed* request (what a kernel sends).
pub fn normalise(r: &mut Req) {
    match r.op.as_str() {
        "WRITE" => {
            r.fields.insert("size".into(), r.payload.len() as u64);
        }
        "SETXATTR" => {
            r.fields.insert("size".into(), r.payload.len() as u64);
        }
        "IOCTL" => {
            r.fields.insert("in_size".into(), r.payload.len() as u64);
            let os = r.f("out_size") % 4096;
            r.fields.insert("out_size".into(), os);
        }
        "BATCH_FORGET" | "REMOVEMAPPING" => {
            r.fields.insert("count".into(), r.items.len() as u64);
        }
        "READ" | "READDIR" | "READDIRPLUS" => {
            let s = r.f("size") % 65537;
            r.fields.insert("size".into(), s);
        }
        "GETXATTR" | "LISTXATTR" => {
            let s = r.f("size") % 65537;
            r.fields.insert("size".into(), s);
        }
        "RENAME2" => {
            // defined flag bits only (RENAME_NOREPLACE|EXCHANGE|WHITEOUT)
            let fl = r.f("flags") & 7;
            r.fields.insert("flags".into(), fl);
        }
        "INIT" => {
            r.fields.insert("major".into(), 7);
            let m = r.f("minor") % 40;
            r.fields.insert("minor".into(), m);
            for i in 0..11 {
                r.fields.remove(&format!("unused[{}]", i));
            }
        }
        _ => {}
    }
}

pub fn any_req(max_payload: usize, max_name: usize) -> BoxedStrategy<Req> {
    let all: Vec<BoxedStrategy<Req>> = OPS.iter().map(|d| req_of(d.op, max_payload, max_name)).collect();
    proptest::strategy::Union::new(all).boxed()
}
