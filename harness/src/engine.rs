//! Engine shared by all properties: proptest driver, known-findings filter,
//! worker fan-out, evidence and replay files.
use proptest::strategy::{BoxedStrategy, Strategy};
use proptest::test_runner::{Config, RngSeed, TestCaseError, TestError, TestRunner};
use serde::de::DeserializeOwned;
use serde::{Deserialize, Serialize};
use serde_json::{json, Value};
use std::cell::RefCell;
use std::collections::{BTreeMap, BTreeSet};
use std::io::Write;
use std::panic::{catch_unwind, AssertUnwindSafe};
use std::time::Instant;

pub fn root() -> String {
    std::env::var("FBV_ROOT").unwrap_or_else(|_| "/verif".to_string())
}

pub fn fnv(bytes: &[u8]) -> u64 {
    let mut h: u64 = 0xcbf29ce484222325;
    for b in bytes {
        h ^= *b as u64;
        h = h.wrapping_mul(0x100000001b3);
    }
    h
}

pub fn mix(a: u64, b: u64) -> u64 {
    let mut x = a ^ b.wrapping_mul(0x9E3779B97F4A7C15);
    x ^= x >> 30;
    x = x.wrapping_mul(0xBF58476D1CE4E5B9);
    x ^= x >> 27;
    x = x.wrapping_mul(0x94D049BB133111EB);
    x ^ (x >> 31)
}

#[derive(Clone, Copy, PartialEq, Eq, Debug)]
pub enum Tier {
    Quick,
    Thorough,
}
impl Tier {
    pub fn name(&self) -> &'static str {
        match self {
            Tier::Quick => "quick",
            Tier::Thorough => "thorough",
        }
    }
    pub fn pick<T>(&self, q: T, t: T) -> T {
        match self {
            Tier::Quick => q,
            Tier::Thorough => t,
        }
    }
}

#[derive(Clone, Debug, Serialize, Deserialize)]
pub struct Fail {
    pub sig: String,
    pub msg: String,
}
impl Fail {
    pub fn new(sig: impl Into<String>, msg: impl Into<String>) -> Fail {
        Fail {
            sig: sig.into(),
            msg: msg.into(),
        }
    }
}

#[derive(Default, Debug)]
pub struct Outcome {
    pub classes: Vec<String>,
    pub nontrivial: bool,
    pub fails: Vec<Fail>,
}
impl Outcome {
    pub fn class(&mut self, c: impl Into<String>) {
        self.classes.push(c.into());
    }
    pub fn fail(&mut self, sig: impl Into<String>, msg: impl Into<String>) {
        self.fails.push(Fail::new(sig, msg));
    }
}

#[derive(Clone, Debug, Serialize, Deserialize)]
pub struct Finding {
    pub property: String,
    pub signature: String,
    pub status: String, // "known" | "fixed"
    #[serde(default)]
    pub commit: String,
    #[serde(default)]
    pub what: String,
}

#[derive(Clone, Debug, Default)]
pub struct Known {
    pub list: Vec<Finding>,
}
impl Known {
    pub fn load() -> Known {
        let p = format!("{}/known_findings.json", root());
        match std::fs::read_to_string(&p) {
            Ok(s) => {
                let v: Value = serde_json::from_str(&s).expect("known_findings.json invalid");
                let list: Vec<Finding> =
                    serde_json::from_value(v["findings"].clone()).expect("findings invalid");
                Known { list }
            }
            Err(_) => Known::default(),
        }
    }
    /// Is this signature listed as an *open* known finding (status "known")?
    pub fn is_known(&self, prop: &str, sig: &str) -> Option<&Finding> {
        self.list
            .iter()
            .find(|f| f.property == prop && f.status == "known" && f.signature == sig)
    }
}

#[derive(Clone, Debug, Serialize, Deserialize)]
pub struct Violation {
    pub sig: String,
    pub msg: String,
    pub kind: String,
    pub case: Value,
}

#[derive(Clone, Debug, Default, Serialize, Deserialize)]
pub struct WorkerResult {
    pub evaluations: u64,
    pub keys: Vec<u64>,
    pub classes: BTreeMap<String, u64>,
    pub samples: Vec<Value>,
    pub excluded_known: BTreeMap<String, u64>,
    pub violation: Option<Violation>,
    pub extra: BTreeMap<String, Value>,
    pub exhaustive_parts: Vec<String>,
}
impl WorkerResult {
    pub fn merge(&mut self, o: WorkerResult) {
        self.evaluations += o.evaluations;
        self.keys.extend(o.keys);
        for (k, v) in o.classes {
            *self.classes.entry(k).or_insert(0) += v;
        }
        for s in o.samples {
            if self.samples.len() < 8 {
                self.samples.push(s);
            }
        }
        for (k, v) in o.excluded_known {
            *self.excluded_known.entry(k).or_insert(0) += v;
        }
        if self.violation.is_none() {
            self.violation = o.violation;
        }
        for (k, v) in o.extra {
            // numeric extras are summed, others kept first
            match (self.extra.get(&k).and_then(|x| x.as_u64()), v.as_u64()) {
                (Some(a), Some(b)) => {
                    self.extra.insert(k, json!(a + b));
                }
                _ => {
                    self.extra.entry(k).or_insert(v);
                }
            }
        }
        for p in o.exhaustive_parts {
            if !self.exhaustive_parts.contains(&p) {
                self.exhaustive_parts.push(p);
            }
        }
    }
}

pub struct WorkerCtx {
    pub tier: Tier,
    pub idx: usize,
    pub n: usize,
    pub seed: u64,
    pub known: Known,
    /// crash journal: the case about to be evaluated is written here first, so that the parent can
    /// report it when the worker process dies (abort, segfault, stack overflow)
    pub journal: Option<std::fs::File>,
}
impl WorkerCtx {
    /// share of `total` cases for this worker
    pub fn share(&self, total: u64) -> u64 {
        let base = total / self.n as u64;
        let rem = total % self.n as u64;
        base + if (self.idx as u64) < rem { 1 } else { 0 }
    }
}

pub struct Meta {
    pub rule: &'static str,
    pub level: &'static str,
    pub assumptions: Vec<String>,
    pub workers_quick: usize,
    pub workers_thorough: usize,
    /// seconds after which the parent gives up on a worker (exit 2)
    pub watchdog_quick: u64,
    pub watchdog_thorough: u64,
}
impl Default for Meta {
    fn default() -> Self {
        Meta {
            rule: "",
            level: "exploration",
            assumptions: vec![],
            workers_quick: 8,
            workers_thorough: 16,
            watchdog_quick: 900,
            watchdog_thorough: 6 * 3600,
        }
    }
}

pub trait Prop: Sync {
    fn id(&self) -> &'static str;
    fn meta(&self) -> Meta;
    fn worker(&self, w: &WorkerCtx) -> WorkerResult;
    /// run one saved case; returns all failures (unfiltered)
    fn replay(&self, kind: &str, case: &Value) -> Vec<Fail>;
}

/// Shorten long strings / arrays so that samples in evidence stay readable.
pub fn shorten(v: &Value) -> Value {
    match v {
        Value::String(s) if s.len() > 160 => {
            Value::String(format!("{}…(+{} chars)", &s[..s.char_indices().nth(120).map(|x| x.0).unwrap_or(s.len())], s.len() - 120))
        }
        Value::Array(a) => {
            let mut out: Vec<Value> = a.iter().take(24).map(shorten).collect();
            if a.len() > 24 {
                out.push(Value::String(format!("…(+{} items)", a.len() - 24)));
            }
            Value::Array(out)
        }
        Value::Object(m) => Value::Object(m.iter().map(|(k, v)| (k.clone(), shorten(v))).collect()),
        x => x.clone(),
    }
}

thread_local! {
    static PANIC_LOC: RefCell<Option<String>> = RefCell::new(None);
}

pub fn install_panic_hook() {
    std::panic::set_hook(Box::new(|info| {
        let loc = info
            .location()
            .map(|l| format!("{}:{}", l.file(), l.line()))
            .unwrap_or_else(|| "?".into());
        let msg = if let Some(s) = info.payload().downcast_ref::<&str>() {
            s.to_string()
        } else if let Some(s) = info.payload().downcast_ref::<String>() {
            s.clone()
        } else {
            "?".into()
        };
        PANIC_LOC.with(|p| *p.borrow_mut() = Some(format!("{} [{}]", loc, msg)));
    }));
}

pub fn take_panic_loc() -> String {
    PANIC_LOC.with(|p| p.borrow_mut().take()).unwrap_or_else(|| "?".into())
}

/// Run `f`, turning a panic into a Fail with signature `panic/<file:line>`.
pub fn guarded<T>(f: impl FnOnce() -> T) -> Result<T, Fail> {
    match catch_unwind(AssertUnwindSafe(f)) {
        Ok(v) => Ok(v),
        Err(_) => {
            let loc = take_panic_loc();
            let short = loc.split(' ').next().unwrap_or("?").to_string();
            // strip line number from signature only partially: keep file:line (stable enough, exact)
            Err(Fail::new(format!("panic/{}", short), format!("panicked at {}", loc)))
        }
    }
}

static MAX_SHRINK: std::sync::atomic::AtomicU32 = std::sync::atomic::AtomicU32::new(4000);
/// expensive cases (real directories with hundreds of files) cap the shrinking effort
pub fn set_max_shrink_iters(n: u32) {
    MAX_SHRINK.store(n, std::sync::atomic::Ordering::Relaxed);
}

/// Generic proptest driver. `run` must be a pure function of the case.
pub fn drive<C>(
    w: &WorkerCtx,
    prop_id: &str,
    kind: &str,
    cases: u64,
    strat: BoxedStrategy<C>,
    run: impl Fn(&C) -> Outcome,
) -> WorkerResult
where
    C: Serialize + DeserializeOwned + std::fmt::Debug + Clone,
{
    let mut res = WorkerResult::default();
    if cases == 0 {
        return res;
    }
    // only the checks that talk to the host file system need the retry rule
    let retry_flaky = matches!(prop_id, "C05" | "C06" | "C08" | "C10" | "C11" | "C15" | "C16" | "C18");
    let seed = mix(mix(w.seed, fnv(prop_id.as_bytes())), mix(fnv(kind.as_bytes()), w.idx as u64));
    let cfg = Config {
        cases: cases as u32,
        rng_seed: RngSeed::Fixed(seed),
        failure_persistence: None,
        max_shrink_iters: MAX_SHRINK.load(std::sync::atomic::Ordering::Relaxed),
        max_shrink_time: 0,
        max_global_rejects: 1 << 20,
        max_local_rejects: 1 << 20,
        verbose: 0,
        ..Config::default()
    };
    let mut runner = TestRunner::new(cfg);
    struct St {
        evaluations: u64,
        keys: BTreeSet<u64>,
        classes: BTreeMap<String, u64>,
        samples: Vec<Value>,
        nt_samples: Vec<Value>,
        excluded: BTreeMap<String, u64>,
        failed: bool,
        first: Option<(Fail, Value)>,
    }
    let st = RefCell::new(St {
        evaluations: 0,
        keys: BTreeSet::new(),
        classes: BTreeMap::new(),
        samples: vec![],
        nt_samples: vec![],
        excluded: BTreeMap::new(),
        failed: false,
        first: None,
    });
    let eval = |c: &C| -> (Outcome, Vec<Fail>) {
        let mut out = match guarded(|| run(c)) {
            Ok(o) => o,
            Err(f) => Outcome {
                classes: vec!["panic-in-harness-or-code".into()],
                nontrivial: true,
                fails: vec![f],
            },
        };
        let mut fails = std::mem::take(&mut out.fails);
        if !fails.is_empty() && retry_flaky {
            // Environment-dependent outcomes (e.g. the host kernel answering ENOMEM to one call under
            // load) must not raise an alarm: a failure counts only if it shows again when the very
            // same case is evaluated a second time. Retries that passed are counted in the evidence.
            let again = match guarded(|| run(c)) {
                Ok(mut o) => std::mem::take(&mut o.fails),
                Err(f) => vec![f],
            };
            if again.is_empty() {
                out.classes.push("engine:failure-not-reproduced-on-immediate-retry".into());
                fails.clear();
            }
        }
        (out, fails)
    };
    let r = runner.run(&strat, |c| {
        if let Some(j) = &w.journal {
            // written through a descriptor opened before any chroot
            if let Ok(js) = serde_json::to_string(&c) {
                use std::os::unix::fs::FileExt;
                let body = format!("{{\"kind\":\"{}\",\"case\":{}}}", kind, js);
                let _ = j.set_len(0);
                let _ = j.write_all_at(body.as_bytes(), 0);
            }
        }
        let (out, fails) = eval(&c);
        let mut unknown: Vec<Fail> = vec![];
        {
            let mut s = st.borrow_mut();
            let counting = !s.failed;
            if counting {
                s.evaluations += 1;
                let js = serde_json::to_string(&c).unwrap_or_default();
                if out.nontrivial {
                    s.keys.insert(fnv(js.as_bytes()));
                }
                for cl in &out.classes {
                    *s.classes.entry(cl.clone()).or_insert(0) += 1;
                }
                if s.samples.len() < 2 {
                    if let Ok(v) = serde_json::from_str::<Value>(&js) {
                        s.samples.push(shorten(&v));
                    }
                } else if out.nontrivial && s.nt_samples.len() < 3 {
                    if let Ok(v) = serde_json::from_str::<Value>(&js) {
                        s.nt_samples.push(shorten(&v));
                    }
                }
            }
            for f in fails {
                if w.known.is_known(prop_id, &f.sig).is_some() {
                    if counting {
                        *s.excluded.entry(f.sig.clone()).or_insert(0) += 1;
                    }
                } else {
                    unknown.push(f);
                }
            }
            if !unknown.is_empty() {
                if !s.failed {
                    s.first = Some((unknown[0].clone(), serde_json::to_value(&c).unwrap_or(Value::Null)));
                }
                s.failed = true;
            }
        }
        if let Some(f) = unknown.into_iter().next() {
            Err(TestCaseError::fail(f.sig))
        } else {
            Ok(())
        }
    });
    let s = st.into_inner();
    res.evaluations = s.evaluations;
    res.keys = s.keys.into_iter().collect();
    res.classes = s.classes;
    res.samples = s.samples;
    res.samples.extend(s.nt_samples);
    res.excluded_known = s.excluded;
    match r {
        Ok(()) => {}
        Err(TestError::Fail(_reason, shrunk)) => {
            let (_o, fails) = eval(&shrunk);
            match fails.into_iter().find(|f| w.known.is_known(prop_id, &f.sig).is_none()) {
                Some(f) => {
                    res.violation = Some(Violation { sig: f.sig, msg: f.msg, kind: kind.to_string(), case: serde_json::to_value(&shrunk).unwrap_or(Value::Null) });
                }
                None => {
                    // the shrunk case passes when re-run: report the original failing case instead
                    let (f, case) = s.first.clone().unwrap_or((Fail::new("unstable", "failure did not reproduce"), Value::Null));
                    res.violation = Some(Violation {
                        sig: f.sig,
                        msg: format!("{} [note: not reproducible on the shrunk case; this is the original failing case]", f.msg),
                        kind: kind.to_string(),
                        case,
                    });
                }
            }
        }
        Err(TestError::Abort(reason)) => {
            res.violation = Some(Violation {
                sig: "engine/abort".into(),
                msg: format!("proptest aborted: {}", reason),
                kind: kind.to_string(),
                case: Value::Null,
            });
        }
    }
    res
}

/// Accumulator for hand-enumerated (non-proptest) obligations.
pub struct Enumerated<'a> {
    pub w: &'a WorkerCtx,
    pub prop_id: &'a str,
    pub kind: &'a str,
    pub res: WorkerResult,
}
impl<'a> Enumerated<'a> {
    pub fn new(w: &'a WorkerCtx, prop_id: &'a str, kind: &'a str) -> Self {
        Enumerated {
            w,
            prop_id,
            kind,
            res: WorkerResult::default(),
        }
    }
    /// record one enumerated obligation
    pub fn item(&mut self, case: Value, class: &str, nontrivial: bool, fails: Vec<Fail>) {
        self.res.evaluations += 1;
        *self.res.classes.entry(class.to_string()).or_insert(0) += 1;
        if nontrivial {
            self.res.keys.push(fnv(case.to_string().as_bytes()));
        }
        if self.res.samples.len() < 3 {
            self.res.samples.push(shorten(&case));
        }
        for f in fails {
            if self.w.known.is_known(self.prop_id, &f.sig).is_some() {
                *self.res.excluded_known.entry(f.sig).or_insert(0) += 1;
            } else if self.res.violation.is_none() {
                self.res.violation = Some(Violation {
                    sig: f.sig,
                    msg: f.msg,
                    kind: self.kind.to_string(),
                    case: case.clone(),
                });
            }
        }
    }
    /// cheap bulk counting without a stored case (for very large enumerations)
    pub fn bulk(&mut self, n: u64, class: &str) {
        self.res.evaluations += n;
        *self.res.classes.entry(class.to_string()).or_insert(0) += n;
    }
}

// ---------------------------------------------------------------------------
// parent side

pub fn parse_seed() -> u64 {
    std::env::var("VERIF_SEED")
        .ok()
        .and_then(|s| s.trim().parse::<i128>().ok())
        .map(|v| v as u64)
        .unwrap_or(0)
}

pub fn run_check(prop: &dyn Prop, tier: Tier) -> i32 {
    let t0 = Instant::now();
    let seed = parse_seed();
    let meta = prop.meta();
    let known = Known::load();
    let n = tier.pick(meta.workers_quick, meta.workers_thorough).max(1);
    let n = std::env::var("FBV_WORKERS").ok().and_then(|s| s.parse().ok()).unwrap_or(n);
    let exe = std::env::current_exe().expect("current_exe");
    let tmpdir = format!("/dev/shm/fbv-par-{}", std::process::id());
    let _ = std::fs::create_dir_all(&tmpdir);
    let mut children = vec![];
    for i in 0..n {
        let out = format!("{}/w{}.json", tmpdir, i);
        let ch = std::process::Command::new(&exe)
            .args(["worker", prop.id(), tier.name(), &i.to_string(), &n.to_string(), &seed.to_string(), &out])
            .stdin(std::process::Stdio::null())
            .spawn()
            .expect("spawn worker");
        children.push((i, ch, out));
    }
    let watchdog = tier.pick(meta.watchdog_quick, meta.watchdog_thorough);
    let mut merged = WorkerResult::default();
    let mut inconclusive: Vec<String> = vec![];
    for (i, mut ch, out) in children {
        // wait with deadline
        let status = loop {
            match ch.try_wait() {
                Ok(Some(st)) => break Some(st),
                Ok(None) => {
                    if t0.elapsed().as_secs() > watchdog {
                        let _ = ch.kill();
                        let _ = ch.wait();
                        break None;
                    }
                    std::thread::sleep(std::time::Duration::from_millis(20));
                }
                Err(_) => break None,
            }
        };
        match status {
            None => inconclusive.push(format!("worker {} exceeded the {} s watchdog", i, watchdog)),
            Some(st) => {
                match std::fs::read_to_string(&out).ok().and_then(|s| serde_json::from_str::<WorkerResult>(&s).ok()) {
                    Some(r) => merged.merge(r),
                    None => {
                        // the worker died: the journal holds the case it was evaluating
                        let cur = std::fs::read_to_string(format!("{}.cur", out)).ok().and_then(|s| serde_json::from_str::<Value>(&s).ok());
                        match cur {
                            Some(v) => {
                                use std::os::unix::process::ExitStatusExt;
                                let how = match st.signal() {
                                    Some(sig) => format!("signal-{}", sig),
                                    None => format!("exit-{}", st.code().unwrap_or(-1)),
                                };
                                if merged.violation.is_none() {
                                    merged.violation = Some(Violation {
                                        sig: format!("crash/worker-died:{}", how),
                                        msg: format!("the worker process died ({}) while evaluating this case (not shrunk)", how),
                                        kind: v["kind"].as_str().unwrap_or("").to_string(),
                                        case: v["case"].clone(),
                                    });
                                }
                            }
                            None => inconclusive.push(format!("worker {} ended with {:?} and no result", i, st)),
                        }
                    }
                }
            }
        }
        // scratch dirs of jailed workers
    }
    let _ = std::fs::remove_dir_all(&tmpdir);
    cleanup_scratch();
    let wall = t0.elapsed().as_secs_f64();

    // distinct non-trivial
    let distinct: BTreeSet<u64> = merged.keys.iter().copied().collect();
    let mut printed = BTreeSet::new();
    for (sig, cnt) in &merged.excluded_known {
        if let Some(f) = known.is_known(prop.id(), sig) {
            if printed.insert(sig.clone()) {
                println!("KNOWN-FINDING: property={} {} [{}; {} cases excluded]", prop.id(), f.what, sig, cnt);
            }
        }
    }
    let mut violations = 0;
    let mut replay_path = String::new();
    if let Some(v) = &merged.violation {
        violations = 1;
        let dir = format!("{}/replays", root());
        let _ = std::fs::create_dir_all(&dir);
        replay_path = format!("{}/{}-{:016x}.json", dir, prop.id(), fnv(v.sig.as_bytes()));
        let body = json!({"property": prop.id(), "signature": v.sig, "message": v.msg, "kind": v.kind, "seed": seed, "tier": tier.name(), "case": v.case});
        let _ = std::fs::write(&replay_path, serde_json::to_string_pretty(&body).unwrap());
    }
    let mut coverage = serde_json::Map::new();
    coverage.insert("evaluations".into(), json!(merged.evaluations));
    coverage.insert("distinct_nontrivial".into(), json!(distinct.len()));
    coverage.insert("rule".into(), json!(meta.rule));
    coverage.insert("samples".into(), json!(merged.samples));
    coverage.insert("classes".into(), json!(merged.classes));
    coverage.insert("excluded_known".into(), json!(merged.excluded_known));
    coverage.insert("workers".into(), json!(n));
    if !merged.exhaustive_parts.is_empty() {
        coverage.insert("exhaustive_parts".into(), json!(merged.exhaustive_parts));
    }
    for (k, v) in &merged.extra {
        coverage.insert(k.clone(), v.clone());
    }
    if !inconclusive.is_empty() {
        coverage.insert("inconclusive".into(), json!(inconclusive));
    }
    if let Some(v) = &merged.violation {
        coverage.insert("violation".into(), json!({"signature": v.sig, "message": shorten_msg(&v.msg), "replay": replay_path}));
    }
    let ev = json!({
        "property_id": prop.id(),
        "tier": tier.name(),
        "seed": seed as i64,
        "level": meta.level,
        "coverage": Value::Object(coverage),
        "assumptions": meta.assumptions,
        "wall_s": wall,
        "violations": violations,
    });
    let evdir = format!("{}/evidence", root());
    let _ = std::fs::create_dir_all(&evdir);
    let evp = format!("{}/{}.json", evdir, prop.id());
    std::fs::write(&evp, serde_json::to_string_pretty(&ev).unwrap()).expect("write evidence");
    println!(
        "{} {}: evaluations={} distinct_nontrivial={} wall={:.1}s workers={}",
        prop.id(),
        tier.name(),
        merged.evaluations,
        distinct.len(),
        wall,
        n
    );
    if let Some(v) = &merged.violation {
        println!("  signature: {}", v.sig);
        println!("  message:   {}", shorten_msg(&v.msg));
        println!("VIOLATION property={} replay={}", prop.id(), replay_path);
        return 1;
    }
    if !inconclusive.is_empty() {
        for m in &inconclusive {
            eprintln!("INCONCLUSIVE: {}", m);
        }
        return 2;
    }
    0
}

pub fn cleanup_scratch() {
    // remove scratch dirs of (dead) workers of this check
    if let Ok(rd) = std::fs::read_dir("/var/tmp") {
        for e in rd.flatten() {
            let name = e.file_name().to_string_lossy().to_string();
            if let Some(rest) = name.strip_prefix("fbv-jail-") {
                if let Ok(pid) = rest.split('-').next().unwrap_or("").parse::<i32>() {
                    let alive = unsafe { libc::kill(pid, 0) } == 0;
                    if !alive {
                        let _ = std::fs::remove_dir_all(e.path());
                    }
                }
            }
        }
    }
}

pub fn run_worker(prop: &dyn Prop, args: &[String]) -> i32 {
    // args: tier idx n seed out
    let tier = if args[0] == "thorough" { Tier::Thorough } else { Tier::Quick };
    let idx: usize = args[1].parse().unwrap();
    let n: usize = args[2].parse().unwrap();
    let seed: u64 = args[3].parse().unwrap();
    // open the output before anything else: jailed workers chroot later
    let mut out = std::fs::File::create(&args[4]).expect("create worker output");
    install_panic_hook();
    let w = WorkerCtx {
        tier,
        idx,
        n,
        seed,
        known: Known::load(),
        journal: std::fs::OpenOptions::new().create(true).write(true).truncate(true).open(format!("{}.cur", args[4])).ok(),
    };
    let res = prop.worker(&w);
    let _ = std::fs::remove_file(format!("{}.cur", args[4]));
    let s = serde_json::to_string(&res).unwrap();
    out.write_all(s.as_bytes()).unwrap();
    0
}

pub fn run_replay(prop: &dyn Prop, path: &str) -> i32 {
    install_panic_hook();
    let s = std::fs::read_to_string(path).expect("read replay file");
    let v: Value = serde_json::from_str(&s).expect("replay json");
    let kind = v["kind"].as_str().unwrap_or("").to_string();
    let known = Known::load();
    let fails = prop.replay(&kind, &v["case"]);
    let mut bad = false;
    for f in &fails {
        if let Some(k) = known.is_known(prop.id(), &f.sig) {
            println!("KNOWN-FINDING: property={} {} [{}]", prop.id(), k.what, f.sig);
        } else {
            println!("  signature: {}\n  message:   {}", f.sig, shorten_msg(&f.msg));
            bad = true;
        }
    }
    if bad {
        println!("VIOLATION property={} replay={}", prop.id(), path);
        1
    } else {
        println!("{} replay: no violation", prop.id());
        0
    }
}

/// hex (de)serialisation for byte vectors so that replay files stay readable
pub mod hexbytes {
    use serde::{Deserialize, Deserializer, Serializer};
    pub fn serialize<S: Serializer>(v: &Vec<u8>, s: S) -> Result<S::Ok, S::Error> {
        let mut out = String::with_capacity(v.len() * 2);
        for b in v {
            out.push_str(&format!("{:02x}", b));
        }
        s.serialize_str(&out)
    }
    pub fn deserialize<'de, D: Deserializer<'de>>(d: D) -> Result<Vec<u8>, D::Error> {
        let s = String::deserialize(d)?;
        let b = s.as_bytes();
        let mut out = Vec::with_capacity(b.len() / 2);
        let hv = |c: u8| -> u8 {
            match c {
                b'0'..=b'9' => c - b'0',
                b'a'..=b'f' => c - b'a' + 10,
                b'A'..=b'F' => c - b'A' + 10,
                _ => 0,
            }
        };
        let mut i = 0;
        while i + 1 < b.len() {
            out.push(hv(b[i]) << 4 | hv(b[i + 1]));
            i += 2;
        }
        Ok(out)
    }
}

/// index selection helper: monotone map of a u16 onto 0..len
pub fn pick_idx(i: u16, len: usize) -> usize {
    if len == 0 {
        0
    } else {
        ((i as usize) * len) >> 16
    }
}

pub fn boxed<S: Strategy + 'static>(s: S) -> BoxedStrategy<S::Value> {
    s.boxed()
}

/// Seed corpus for a JSON fuzz target: `n` cases drawn from the property's own strategy (fixed seed),
/// each at most `max_len` bytes of JSON.
pub fn write_json_corpus<T: serde::Serialize + std::fmt::Debug>(st: proptest::strategy::BoxedStrategy<T>, dir: &str, n: usize, max_len: usize) {
    use proptest::strategy::{Strategy, ValueTree};
    use proptest::test_runner::{Config, RngAlgorithm, TestRng, TestRunner};
    std::fs::create_dir_all(dir).unwrap();
    let mut runner = TestRunner::new_with_rng(Config::default(), TestRng::from_seed(RngAlgorithm::ChaCha, &{
        // FBV_CORPUS_SEED: fresh draws per campaign job
        let k: u64 = std::env::var("FBV_CORPUS_SEED").ok().and_then(|s| s.parse().ok()).unwrap_or(9);
        let mut b = [9u8; 32];
        b[..8].copy_from_slice(&k.to_le_bytes());
        b
    }));
    let mut i = 0;
    let mut tries = 0;
    while i < n && tries < n * 50 {
        tries += 1;
        let c = st.new_tree(&mut runner).unwrap().current();
        let b = serde_json::to_vec(&c).unwrap();
        if b.len() > max_len {
            continue;
        }
        std::fs::write(format!("{}/seed-{:04}.json", dir, i), b).unwrap();
        i += 1;
    }
}

/// console / evidence form of a failure message (the replay file keeps the full text)
pub fn shorten_msg(m: &str) -> String {
    if m.len() <= 700 {
        m.to_string()
    } else {
        let cut = (0..=700).rev().find(|i| m.is_char_boundary(*i)).unwrap_or(0);
        format!("{} ... [{} more bytes]", &m[..cut], m.len() - cut)
    }
}
