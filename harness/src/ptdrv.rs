//! Passthrough driver: a FUSE client model speaking to Server<PassthroughFs> over
//! the /dev/fuse stand-in, mirrored operation by operation on a shadow directory
//! with plain system calls (the host kernel is the reference).
//! Must run inside the jail (see jail.rs).
use crate::codec::{self, c, get, ssize};
use crate::engine::Outcome;
use crate::jail::{self as sys, raw};
use crate::vfsdrv::{call, mkreq, Rep};
use fuse_backend_rs::api::server::Server;
use fuse_backend_rs::passthrough::{CachePolicy, Config, PassthroughFs};
use serde::{Deserialize, Serialize};
use std::collections::BTreeMap;
use std::os::unix::io::OwnedFd;
use std::sync::Arc;

#[derive(Clone, Debug, Serialize, Deserialize, PartialEq)]
pub struct PtCfg {
    pub no_open: bool,
    pub no_opendir: bool,
    pub file_handles: bool,
    pub use_host_ino: bool,
    pub writeback: bool,
    /// 0 Never, 1 Metadata, 2 Auto, 3 Always
    pub cache: u8,
    pub xattr: bool,
    pub seal_size: bool,
    pub killpriv_v2: bool,
    /// capability bits the client does NOT offer at INIT
    pub client_withholds: u64,
}

impl Default for PtCfg {
    fn default() -> Self {
        PtCfg { no_open: false, no_opendir: false, file_handles: false, use_host_ino: false, writeback: false, cache: 2, xattr: true, seal_size: false, killpriv_v2: false, client_withholds: 0 }
    }
}

#[derive(Clone, Debug, Default, PartialEq)]
pub struct AttrRep {
    pub ino: u64,
    pub size: u64,
    pub mode: u32,
    pub nlink: u32,
    pub uid: u32,
    pub gid: u32,
    pub rdev: u32,
    pub mtime: u64,
    pub mtimensec: u32,
    pub atime: u64,
    pub atimensec: u32,
    pub flags: u32,
}

pub fn parse_attr(b: &[u8], at: usize, s: &str, pre: &str) -> AttrRep {
    let g = |f: &str| get(b, at, s, &format!("{}{}", pre, f));
    AttrRep {
        ino: g("ino"),
        size: g("size"),
        mode: g("mode") as u32,
        nlink: g("nlink") as u32,
        uid: g("uid") as u32,
        gid: g("gid") as u32,
        rdev: g("rdev") as u32,
        mtime: g("mtime"),
        mtimensec: g("mtimensec") as u32,
        atime: g("atime"),
        atimensec: g("atimensec") as u32,
        flags: g("flags") as u32,
    }
}

pub fn entry_of(rep: &Rep, at: usize) -> Option<(u64, AttrRep)> {
    if rep.error != 0 || rep.body.len() < at + ssize("fuse_entry_out") {
        return None;
    }
    Some((get(&rep.body, at, "fuse_entry_out", "nodeid"), parse_attr(&rep.body, at, "fuse_entry_out", "attr.")))
}
pub fn attr_of(rep: &Rep) -> Option<AttrRep> {
    if rep.error != 0 || rep.body.len() < ssize("fuse_attr_out") {
        return None;
    }
    Some(parse_attr(&rep.body, 0, "fuse_attr_out", "attr."))
}

pub struct SNode {
    /// O_PATH descriptor of the mirror object in the shadow tree
    pub fd: OwnedFd,
    /// references the client holds
    pub count: u64,
    pub ifmt: u32,
    pub key: (u64, u64),
}

pub struct SHandle {
    pub fh: u64,
    pub nodeid: u64,
    pub sfd: OwnedFd,
    pub flags: u32,
    pub dir: bool,
    pub live: bool,
}

#[derive(Clone, Debug, Serialize, Deserialize, PartialEq)]
pub enum ObjKind {
    File { size_sel: u8, seed: u32 },
    Dir { sticky: bool, setgid: bool },
    Symlink(u8),
    Hardlink(u8),
    Fifo,
    Chr,
}

#[derive(Clone, Debug, Serialize, Deserialize, PartialEq)]
pub struct TreeObj {
    /// index of an earlier directory object (mapped), 255 = root
    pub parent: u8,
    pub name: u8,
    pub kind: ObjKind,
    pub owner: u8,
}

/// the first six names are the dense pool (collisions wanted); the rest are legal but unusual
/// spellings: names that merely BEGIN with dots (Kubernetes' "..data"), a leading dash, a blank
pub const NAMEU: &[&str] = &["a", "b", "c", "d", "e", "f", "..data", "...", ".h", "-x y"];
/// index strategy over NAMEU: mostly the dense pool
pub fn name_idx() -> proptest::strategy::BoxedStrategy<u8> {
    use proptest::prelude::*;
    prop_oneof![12 => 0u8..6, 1 => 6u8..10].boxed()
}
pub const OWNERS: &[u32] = &[0, 1000, 1001];
pub const FILE_SIZES: &[usize] = &[0, 1, 4095, 4096, 4097, 65536, 100, 10000];
pub const LINK_TARGETS: &[&str] = &["a", "b/c", "/export/a", "nonexistent", "../a", ".", "/", "a/../b"];

pub fn filedata(seed: u32, n: usize) -> Vec<u8> {
    crate::props::c04::data(seed, n)
}

/// Create the generated tree under `root`. Returns the relative paths created (dirs first order).
pub fn materialise(root: &str, objs: &[TreeObj]) -> Vec<(String, u32)> {
    let mut created: Vec<(String, u32)> = vec![]; // (relpath, ifmt)
    for o in objs {
        let dirs: Vec<&(String, u32)> = created.iter().filter(|c| c.1 == libc::S_IFDIR).collect();
        let parent = if o.parent == 255 || dirs.is_empty() { String::new() } else { dirs[o.parent as usize % dirs.len()].0.clone() };
        if parent.matches('/').count() >= 3 {
            continue;
        }
        let rel = format!("{}/{}", parent, NAMEU[o.name as usize % NAMEU.len()]);
        let full = format!("{}{}", root, rel);
        if sys::lstat(&full).is_ok() {
            continue;
        }
        let owner = OWNERS[o.owner as usize % OWNERS.len()];
        let fullc = sys::cstr(full.as_bytes());
        let ifmt = match &o.kind {
            ObjKind::File { size_sel, seed } => {
                let n = FILE_SIZES[*size_sel as usize % FILE_SIZES.len()];
                std::fs::write(&full, filedata(*seed, n)).unwrap();
                let _ = sys::chmod_path(full.as_bytes(), 0o644);
                libc::S_IFREG
            }
            ObjKind::Dir { sticky, setgid } => {
                let mut m = 0o777;
                if *sticky {
                    m |= 0o1000;
                }
                if *setgid {
                    m |= 0o2000;
                }
                let _ = sys::mkdirat(libc::AT_FDCWD, full.as_bytes(), m);
                let _ = sys::chmod_path(full.as_bytes(), m);
                libc::S_IFDIR
            }
            ObjKind::Symlink(t) => {
                let _ = sys::symlinkat(LINK_TARGETS[*t as usize % LINK_TARGETS.len()].as_bytes(), libc::AT_FDCWD, full.as_bytes());
                libc::S_IFLNK
            }
            ObjKind::Hardlink(t) => {
                let files: Vec<&(String, u32)> = created.iter().filter(|c| c.1 == libc::S_IFREG).collect();
                if files.is_empty() {
                    continue;
                }
                let src = format!("{}{}", root, files[*t as usize % files.len()].0);
                if std::fs::hard_link(&src, &full).is_err() {
                    continue;
                }
                created.push((rel, libc::S_IFREG));
                continue;
            }
            ObjKind::Fifo => {
                let _ = sys::mknodat(libc::AT_FDCWD, full.as_bytes(), libc::S_IFIFO | 0o644, 0);
                libc::S_IFIFO
            }
            ObjKind::Chr => {
                let _ = sys::mknodat(libc::AT_FDCWD, full.as_bytes(), libc::S_IFCHR | 0o644, libc::makedev(1, 3));
                libc::S_IFCHR
            }
        };
        unsafe {
            libc::lchown(fullc.as_ptr(), owner, owner);
        }
        created.push((rel, ifmt));
    }
    created
}

pub struct Pt {
    pub fs: Arc<PassthroughFs<()>>,
    pub srv: Server<Arc<PassthroughFs<()>>>,
    pub cfg: PtCfg,
    /// negotiated capability bits as the client decodes them
    pub eff: u64,
    pub no_open: bool,
    pub no_opendir: bool,
    pub writeback: bool,
    pub nodes: BTreeMap<u64, SNode>,
    pub by_key: BTreeMap<(u64, u64), u64>,
    /// numbers that were forgotten to zero: key -> (nodeid, pinned shadow fd)
    pub forgotten: BTreeMap<(u64, u64), (u64, OwnedFd)>,
    /// every nodeid ever seen
    pub ever: Vec<u64>,
    pub handles: Vec<SHandle>,
    pub export: String,
    pub shadow: String,
    pub base_euid: u32,
    pub base_egid: u32,
    pub base_caps: (u32, u32),
    pub mutated: bool,
    pub remutated: bool,
    pub touched: std::collections::BTreeSet<(u64, u64)>,
    /// set by send(): the request involved an inode whose host file is unlinked (file-handle mode)
    pub stale_ok: std::cell::Cell<bool>,
}

pub fn config_of(cfg: &PtCfg, root: &str, do_import: bool) -> Config {
    let mut c = Config::default();
    c.root_dir = root.to_string();
    c.do_import = do_import;
    c.no_open = cfg.no_open;
    c.no_opendir = cfg.no_opendir;
    c.inode_file_handles = cfg.file_handles;
    c.use_host_ino = cfg.use_host_ino;
    c.writeback = cfg.writeback;
    c.cache_policy = match cfg.cache % 4 {
        0 => CachePolicy::Never,
        1 => CachePolicy::Metadata,
        2 => CachePolicy::Auto,
        _ => CachePolicy::Always,
    };
    c.xattr = cfg.xattr;
    c.seal_size = cfg.seal_size;
    c.killpriv_v2 = cfg.killpriv_v2;
    c
}

pub const FUSE_ALL: u64 = !(1u64 << 63);

impl Pt {
    pub fn new(out: &mut Outcome, cfg: &PtCfg, export: &str, shadow: &str) -> Option<Pt> {
        let fs = match PassthroughFs::<()>::new(config_of(cfg, export, true)) {
            Ok(f) => Arc::new(f),
            Err(e) => {
                out.fail("pt/new", format!("PassthroughFs::new failed: {}", e));
                return None;
            }
        };
        let srv = Server::new(fs.clone());
        let flags = FUSE_ALL & !cfg.client_withholds;
        let req = mkreq(
            "INIT",
            0,
            0,
            0,
            &[("major", 7), ("minor", 38), ("max_readahead", 65536), ("flags", (flags & 0xffff_ffff) | c("FUSE_INIT_EXT")), ("flags2", flags >> 32)],
            &[],
            &[],
        );
        let rep = call(&srv, &req);
        if rep.error != 0 || rep.body.len() < 24 {
            out.fail("pt/init", format!("INIT failed: error {} ({} bytes)", rep.error, rep.body.len()));
            return None;
        }
        let mut full = rep.body.clone();
        full.resize(ssize("fuse_init_out"), 0);
        let f1 = get(&full, 0, "fuse_init_out", "flags");
        let f2 = get(&full, 0, "fuse_init_out", "flags2");
        let eff = f1 | if f1 & c("FUSE_INIT_EXT") != 0 { f2 << 32 } else { 0 };
        let root_fd = sys::open_path(shadow).expect("shadow root");
        let st = sys::fstat(raw(&root_fd)).unwrap();
        let mut nodes = BTreeMap::new();
        nodes.insert(1, SNode { fd: root_fd, count: u64::MAX / 2, ifmt: libc::S_IFDIR, key: (st.st_dev, st.st_ino) });
        let mut by_key = BTreeMap::new();
        by_key.insert((st.st_dev, st.st_ino), 1u64);
        Some(Pt {
            fs,
            srv,
            cfg: cfg.clone(),
            eff,
            no_open: eff & c("FUSE_NO_OPEN_SUPPORT") != 0,
            no_opendir: eff & c("FUSE_NO_OPENDIR_SUPPORT") != 0,
            writeback: eff & c("FUSE_WRITEBACK_CACHE") != 0,
            nodes,
            by_key,
            forgotten: BTreeMap::new(),
            ever: vec![1],
            handles: vec![],
            export: export.to_string(),
            shadow: shadow.to_string(),
            base_euid: sys::thread_euid(),
            base_egid: sys::thread_egid(),
            base_caps: sys::thread_caps_effective(),
            mutated: false,
            remutated: false,
            touched: Default::default(),
            stale_ok: std::cell::Cell::new(false),
        })
    }

    /// send a request; afterwards the serving thread's credentials must be what they were
    pub fn send(&mut self, out: &mut Outcome, req: &crate::reqgen::Req) -> Rep {
        let mut ids = vec![req.hdr.nodeid];
        for k in ["newdir", "oldnodeid"] {
            if let Some(v) = req.fields.get(k) {
                ids.push(*v);
            }
        }
        self.stale_ok.set(self.any_unlinked(&ids));
        let rep = call(&self.srv, req);
        let (u, g, caps) = (sys::thread_euid(), sys::thread_egid(), sys::thread_caps_effective());
        if u != self.base_euid || g != self.base_egid {
            out.fail(format!("cred/{}/ids-not-restored", req.op), format!("after {} the thread runs as {}:{} (was {}:{})", req.op, u, g, self.base_euid, self.base_egid));
            unsafe {
                libc::syscall(libc::SYS_setresuid, -1i32, self.base_euid, -1i32);
                libc::syscall(libc::SYS_setresgid, -1i32, self.base_egid, -1i32);
            }
        }
        if caps != self.base_caps {
            out.fail(format!("cred/{}/caps-not-restored", req.op), format!("effective capabilities {:x?} (was {:x?})", caps, self.base_caps));
        }
        rep
    }

    /// Documented rule of writeback caching: the kernel may read through a write-only handle and
    /// resolves O_APPEND itself, so the server opens O_WRONLY as O_RDWR and drops O_APPEND.
    pub fn wb_flags(&self, flags: i32) -> i32 {
        let mut f = flags;
        if self.writeback {
            if f & libc::O_ACCMODE == libc::O_WRONLY {
                f = (f & !libc::O_ACCMODE) | libc::O_RDWR;
            }
            f &= !libc::O_APPEND;
        }
        f
    }

    pub fn nodeids(&self) -> Vec<u64> {
        self.nodes.keys().copied().collect()
    }

    fn cmp_attr(&self, out: &mut Outcome, what: &str, a: &AttrRep, st: &libc::stat64) {
        let t = st.st_mode & libc::S_IFMT;
        let mut diffs = vec![];
        if a.mode != st.st_mode {
            diffs.push(format!("mode {:o} vs host {:o}", a.mode, st.st_mode));
        }
        if a.uid != st.st_uid || a.gid != st.st_gid {
            diffs.push(format!("owner {}:{} vs host {}:{}", a.uid, a.gid, st.st_uid, st.st_gid));
        }
        if a.nlink as u64 != st.st_nlink {
            diffs.push(format!("nlink {} vs host {}", a.nlink, st.st_nlink));
        }
        if (t == libc::S_IFREG || t == libc::S_IFLNK) && a.size != st.st_size as u64 {
            diffs.push(format!("size {} vs host {}", a.size, st.st_size));
        }
        if (t == libc::S_IFCHR || t == libc::S_IFBLK) && a.rdev as u64 != st.st_rdev {
            diffs.push(format!("rdev {} vs host {}", a.rdev, st.st_rdev));
        }
        if !diffs.is_empty() {
            out.fail(format!("host/{}/attr", what), format!("{}: {}", what, diffs.join(", ")));
        }
    }

    /// In file-handle mode an inode whose host file has been unlinked can no longer be reopened:
    /// requests on it may fail with ESTALE (only "never another file's data" is required then).
    pub fn any_unlinked(&self, ids: &[u64]) -> bool {
        self.cfg.file_handles
            && ids.iter().any(|n| {
                self.nodes.get(n).map(|x| sys::fstat(raw(&x.fd)).map(|st| st.st_nlink == 0).unwrap_or(true)).unwrap_or(false)
            })
    }

    fn cmp_errno(&self, out: &mut Outcome, what: &str, rep: &Rep, host: Result<(), i32>) -> bool {
        // returns true when both succeeded
        if rep.nreplies != 1 {
            out.fail(format!("host/{}/no-reply", what), format!("{} replies", rep.nreplies));
            return false;
        }
        // (ENOMEM: ext4's iget answers that instead of ESTALE while the stale handle's inode number is
        // being re-created by another process on the same file system)
        if (rep.error == -libc::ESTALE || rep.error == -libc::ENOMEM) && self.stale_ok.get() {
            return false;
        }
        match (rep.error, host) {
            (0, Ok(())) => true,
            (e, Err(h)) if e == -h => false,
            (e, h) => {
                out.fail(format!("host/{}/result", what), format!("{}: reply error {} but the host call gave {:?}", what, e, h));
                false
            }
        }
    }

    /// register an entry the server returned together with the mirror O_PATH fd
    pub fn take_entry(&mut self, out: &mut Outcome, what: &str, nodeid: u64, attr: &AttrRep, sfd: OwnedFd) {
        let st = match sys::fstat(raw(&sfd)) {
            Ok(s) => s,
            Err(_) => return,
        };
        self.cmp_attr(out, what, attr, &st);
        let key = (st.st_dev, st.st_ino);
        if nodeid == 0 {
            out.fail(format!("ref/{}/zero-nodeid", what), "entry with node id 0");
            return;
        }
        if !self.ever.contains(&nodeid) {
            self.ever.push(nodeid);
        }
        // one host file <-> one number while valid
        if let Some(prev) = self.by_key.get(&key) {
            if *prev != nodeid {
                out.fail(format!("ref/{}/file-has-two-numbers", what), format!("host file {:?} is already known as {} but was now returned as {}", key, prev, nodeid));
                return;
            }
        }
        if let Some(n) = self.nodes.get(&nodeid) {
            if n.key != key {
                let cfgtag = if self.cfg.file_handles && self.cfg.use_host_ino { ":file_handles+use_host_ino" } else { "" };
                out.fail(
                    format!("ref/number-denotes-two-files{}", cfgtag),
                    format!("{}: inode number {} is still valid for host file {:?} (count {}) and was now returned for a different host file {:?}", what, nodeid, n.key, n.count, key),
                );
                return;
            }
        }
        // a file looked up again after being forgotten gets the same number
        if let Some((old, _)) = self.forgotten.get(&key) {
            if *old != nodeid {
                out.fail(format!("ref/{}/number-not-stable", what), format!("host file {:?} had number {} before it was forgotten and now got {}", key, old, nodeid));
            }
        }
        self.forgotten.remove(&key);
        match self.nodes.get_mut(&nodeid) {
            Some(n) => n.count = n.count.saturating_add(1),
            None => {
                self.nodes.insert(nodeid, SNode { fd: sfd, count: 1, ifmt: st.st_mode & libc::S_IFMT, key });
                self.by_key.insert(key, nodeid);
            }
        }
    }

    pub fn lookup(&mut self, out: &mut Outcome, parent: u64, name: &[u8]) -> Option<u64> {
        let pfd = raw(&self.nodes.get(&parent)?.fd);
        let rep = self.send(out, &mkreq("LOOKUP", parent, 0, 0, &[], &[name], &[]));
        let host = sys::openat(pfd, name, libc::O_PATH | libc::O_NOFOLLOW, 0);
        let ok = self.cmp_errno(out, "lookup", &rep, host.as_ref().map(|_| ()).map_err(|e| *e));
        if ok {
            let (nodeid, attr) = entry_of(&rep, 0)?;
            self.take_entry(out, "lookup", nodeid, &attr, host.unwrap());
            Some(nodeid)
        } else {
            None
        }
    }

    pub fn forget(&mut self, out: &mut Outcome, nodeid: u64, n: u64) {
        let rep = self.send(out, &mkreq("FORGET", nodeid, 0, 0, &[("nlookup", n)], &[], &[]));
        if rep.nreplies != 0 {
            out.fail("ref/forget/replied", "FORGET was answered");
        }
        self.model_forget(nodeid, n);
    }

    pub fn model_forget(&mut self, nodeid: u64, n: u64) {
        if nodeid == 1 {
            return;
        }
        let gone = match self.nodes.get_mut(&nodeid) {
            Some(node) => {
                node.count = node.count.saturating_sub(n);
                node.count == 0
            }
            None => false,
        };
        if gone {
            let node = self.nodes.remove(&nodeid).unwrap();
            self.by_key.remove(&node.key);
            // zero-message open: a "handle" is nothing but the inode number; a client cannot keep
            // using it after it dropped its last reference
            let (no, nod) = (self.no_open, self.no_opendir);
            for h in self.handles.iter_mut().filter(|h| h.nodeid == nodeid) {
                if (h.dir && nod) || (!h.dir && no) {
                    h.live = false;
                }
            }
            // handles opened on it stay valid on the server until released; the model keeps them
            let st = sys::fstat(raw(&node.fd));
            if let Ok(st) = st {
                if st.st_nlink > 0 || st.st_mode & libc::S_IFMT == libc::S_IFDIR {
                    self.forgotten.insert(node.key, (nodeid, node.fd));
                }
            }
        }
    }

    pub fn batch_forget(&mut self, out: &mut Outcome, items: &[(u64, u64)]) {
        let mut req = mkreq("BATCH_FORGET", 0, 0, 0, &[("count", items.len() as u64)], &[], &[]);
        req.items = items.to_vec();
        let rep = self.send(out, &req);
        if rep.nreplies != 0 {
            out.fail("ref/batch-forget/replied", "BATCH_FORGET was answered");
        }
        for (n, k) in items {
            self.model_forget(*n, *k);
        }
    }

    pub fn getattr(&mut self, out: &mut Outcome, nodeid: u64, h: Option<usize>) {
        let Some(node) = self.nodes.get(&nodeid) else { return };
        let nfd = raw(&node.fd);
        // a kernel client passes a handle only for regular files it really opened
        let no_open = self.no_open;
        let (flags, fh) = match h.and_then(|i| self.handles.get(i)).filter(|h| h.live && h.nodeid == nodeid && !h.dir && !no_open) {
            Some(hd) => (c("FUSE_GETATTR_FH"), hd.fh),
            None => (0, 0),
        };
        let rep = self.send(out, &mkreq("GETATTR", nodeid, 0, 0, &[("getattr_flags", flags), ("fh", fh)], &[], &[]));
        let host = sys::fstat(nfd);
        if self.cmp_errno(out, "getattr", &rep, host.as_ref().map(|_| ()).map_err(|e| *e)) {
            if let Some(a) = attr_of(&rep) {
                self.cmp_attr(out, "getattr", &a, &host.unwrap());
            }
        }
    }

    /// After every step (C08): every number ever seen answers GETATTR iff the model count is positive.
    pub fn probe_validity(&mut self, out: &mut Outcome) {
        let ever = self.ever.clone();
        for n in ever {
            let rep = call(&self.srv, &mkreq("GETATTR", n, 0, 0, &[], &[], &[]));
            match self.nodes.get(&n) {
                Some(node) => {
                    if (rep.error == -libc::ESTALE || rep.error == -libc::ENOMEM) && self.any_unlinked(&[n]) {
                        // tracked by file handle and unlinked on the host: cannot be reopened any more
                        continue;
                    }
                    if rep.error != 0 {
                        out.fail("ref/valid-number-rejected", format!("inode number {} has {} references but GETATTR answered {}", n, node.count, rep.error));
                        return;
                    }
                    if let (Some(a), Ok(st)) = (attr_of(&rep), sys::fstat(raw(&node.fd))) {
                        if a.mode & libc::S_IFMT != st.st_mode & libc::S_IFMT || (st.st_mode & libc::S_IFMT == libc::S_IFREG && a.size != st.st_size as u64) {
                            out.fail(
                                "ref/number-answers-for-another-file",
                                format!("inode number {} (host file {:?}) answered with type {:o} size {} but the host file has type {:o} size {}", n, node.key, a.mode & libc::S_IFMT, a.size, st.st_mode & libc::S_IFMT, st.st_size),
                            );
                            return;
                        }
                    }
                }
                None => {
                    if rep.error == 0 {
                        out.fail("ref/forgotten-number-still-resolves", format!("inode number {} has no references left but GETATTR succeeded", n));
                        return;
                    } else if rep.error != -libc::EBADF {
                        out.fail("ref/forgotten-number-wrong-error", format!("inode number {} has no references left; GETATTR answered {} instead of EBADF", n, rep.error));
                        return;
                    }
                }
            }
        }
    }

    pub fn mark_mut(&mut self, key: (u64, u64)) {
        self.mutated = true;
        if !self.touched.insert(key) {
            self.remutated = true;
        }
    }

    /// create-like operations: mkdir/mknod/symlink/create, executed as the caller on both sides
    pub fn mkdir(&mut self, out: &mut Outcome, parent: u64, name: &[u8], mode: u32, umask: u32, uid: u32, gid: u32) -> Option<u64> {
        let pfd = raw(&self.nodes.get(&parent)?.fd);
        let pkey = self.nodes.get(&parent)?.key;
        let rep = self.send(out, &mkreq("MKDIR", parent, uid, gid, &[("mode", mode as u64), ("umask", umask as u64)], &[name], &[]));
        let host = {
            let _c = sys::AsCaller::new(uid, gid);
            sys::mkdirat(pfd, name, mode & !umask)
        };
        if self.cmp_errno(out, "mkdir", &rep, host) {
            self.mark_mut(pkey);
            let (nodeid, attr) = entry_of(&rep, 0)?;
            let sfd = sys::openat(pfd, name, libc::O_PATH | libc::O_NOFOLLOW, 0).ok()?;
            self.check_owner(out, "mkdir", &attr, uid, gid, &sfd);
            self.take_entry(out, "mkdir", nodeid, &attr, sfd);
            return Some(nodeid);
        }
        None
    }

    fn check_owner(&self, out: &mut Outcome, what: &str, attr: &AttrRep, uid: u32, _gid: u32, sfd: &OwnedFd) {
        if attr.uid != uid {
            out.fail(format!("cred/{}/owner", what), format!("object created for uid {} is owned by {}", uid, attr.uid));
        }
        if let Ok(st) = sys::fstat(raw(sfd)) {
            if st.st_uid != uid {
                // the reference itself disagrees: harness problem, make it loud
                out.fail(format!("harness/{}/shadow-owner", what), format!("shadow object owned by {} expected {}", st.st_uid, uid));
            }
        }
    }

    pub fn mknod(&mut self, out: &mut Outcome, parent: u64, name: &[u8], mode: u32, rdev: u32, umask: u32, uid: u32, gid: u32) -> Option<u64> {
        let pfd = raw(&self.nodes.get(&parent)?.fd);
        let pkey = self.nodes.get(&parent)?.key;
        let rep = self.send(out, &mkreq("MKNOD", parent, uid, gid, &[("mode", mode as u64), ("rdev", rdev as u64), ("umask", umask as u64)], &[name], &[]));
        let host = {
            let _c = sys::AsCaller::new(uid, gid);
            sys::mknodat(pfd, name, mode & !umask, rdev as u64)
        };
        if self.cmp_errno(out, "mknod", &rep, host) {
            self.mark_mut(pkey);
            let (nodeid, attr) = entry_of(&rep, 0)?;
            let sfd = sys::openat(pfd, name, libc::O_PATH | libc::O_NOFOLLOW, 0).ok()?;
            self.check_owner(out, "mknod", &attr, uid, gid, &sfd);
            self.take_entry(out, "mknod", nodeid, &attr, sfd);
            return Some(nodeid);
        }
        None
    }

    pub fn symlink(&mut self, out: &mut Outcome, parent: u64, name: &[u8], target: &[u8], uid: u32, gid: u32) -> Option<u64> {
        let pfd = raw(&self.nodes.get(&parent)?.fd);
        let pkey = self.nodes.get(&parent)?.key;
        let rep = self.send(out, &mkreq("SYMLINK", parent, uid, gid, &[], &[name, target], &[]));
        let host = {
            let _c = sys::AsCaller::new(uid, gid);
            sys::symlinkat(target, pfd, name)
        };
        if self.cmp_errno(out, "symlink", &rep, host) {
            self.mark_mut(pkey);
            let (nodeid, attr) = entry_of(&rep, 0)?;
            let sfd = sys::openat(pfd, name, libc::O_PATH | libc::O_NOFOLLOW, 0).ok()?;
            self.check_owner(out, "symlink", &attr, uid, gid, &sfd);
            self.take_entry(out, "symlink", nodeid, &attr, sfd);
            return Some(nodeid);
        }
        None
    }

    /// CREATE; returns the handle index when a handle was established
    pub fn create(&mut self, out: &mut Outcome, parent: u64, name: &[u8], flags: u32, mode: u32, umask: u32, uid: u32, gid: u32) -> Option<usize> {
        let pfd = raw(&self.nodes.get(&parent)?.fd);
        let pkey = self.nodes.get(&parent)?.key;
        let rep = self.send(
            out,
            &mkreq("CREATE", parent, uid, gid, &[("flags", flags as u64), ("mode", mode as u64), ("umask", umask as u64)], &[name], &[]),
        );
        let existing = sys::openat(pfd, name, libc::O_PATH | libc::O_NOFOLLOW, 0).ok().and_then(|f| sys::fstat(raw(&f)).ok());
        let existed = existing.is_some();
        if let Some(st) = existing {
            let t = st.st_mode & libc::S_IFMT;
            if t != libc::S_IFREG {
                // special files and symlinks are never opened for I/O (a kernel client resolves a
                // symlink itself before it would send CREATE). An existing directory is an excluded
                // input class: open(O_CREAT) gives EISDIR on the host while the server hands out a
                // directory handle, which a kernel client discards (it requires a regular file).
                if rep.error == 0 && t != libc::S_IFDIR {
                    out.fail("host/create/special-file-opened", format!("CREATE on an existing object of type {:o} succeeded", t));
                }
                if rep.error == 0 {
                    // keep the model in step with the references/handle the server handed out
                    if let Some((nodeid, attr)) = entry_of(&rep, 0) {
                        if let Ok(sfd) = sys::openat(pfd, name, libc::O_PATH | libc::O_NOFOLLOW, 0) {
                            self.take_entry(out, "create", nodeid, &attr, sfd);
                            let fh = get(&rep.body, ssize("fuse_entry_out"), "fuse_open_out", "fh");
                            if !self.no_open {
                                let r = self.send(out, &mkreq("RELEASE", nodeid, 0, 0, &[("fh", fh)], &[], &[]));
                                let _ = r;
                            }
                        }
                    }
                }
                return None;
            }
        }
        let host = {
            let _c = sys::AsCaller::new(uid, gid);
            sys::openat(pfd, name, (self.wb_flags(flags as i32) | libc::O_CREAT | libc::O_NOFOLLOW) & !libc::O_DIRECTORY, mode & !(umask & 0o777))
        };
        if self.cmp_errno(out, "create", &rep, host.as_ref().map(|_| ()).map_err(|e| *e)) {
            self.mark_mut(pkey);
            let (nodeid, attr) = entry_of(&rep, 0)?;
            let sfd = sys::openat(pfd, name, libc::O_PATH | libc::O_NOFOLLOW, 0).ok()?;
            if !existed {
                self.check_owner(out, "create", &attr, uid, gid, &sfd);
            }
            self.take_entry(out, "create", nodeid, &attr, sfd);
            let at = ssize("fuse_entry_out");
            let fh = get(&rep.body, at, "fuse_open_out", "fh");
            if self.no_open {
                return None;
            }
            self.handles.push(SHandle { fh, nodeid, sfd: host.unwrap(), flags, dir: false, live: true });
            if self.handles.iter().filter(|h| h.live && !h.dir).filter(|h| h.fh == fh).count() > 1 {
                out.fail("handle/create/duplicate", format!("handle {} is already in use", fh));
            }
            return Some(self.handles.len() - 1);
        }
        None
    }

    pub fn link(&mut self, out: &mut Outcome, nodeid: u64, newparent: u64, name: &[u8]) -> Option<u64> {
        let nfd = raw(&self.nodes.get(&nodeid)?.fd);
        let pfd = raw(&self.nodes.get(&newparent)?.fd);
        let pkey = self.nodes.get(&newparent)?.key;
        let rep = self.send(out, &mkreq("LINK", newparent, 0, 0, &[("oldnodeid", nodeid)], &[name], &[]));
        let host = sys::linkat_fd(nfd, pfd, name);
        if self.cmp_errno(out, "link", &rep, host) {
            self.mark_mut(pkey);
            let (nid, attr) = entry_of(&rep, 0)?;
            let sfd = sys::openat(pfd, name, libc::O_PATH | libc::O_NOFOLLOW, 0).ok()?;
            self.take_entry(out, "link", nid, &attr, sfd);
            return Some(nid);
        }
        None
    }

    pub fn unlink(&mut self, out: &mut Outcome, parent: u64, name: &[u8], dir: bool) {
        let Some(p) = self.nodes.get(&parent) else { return };
        let pfd = raw(&p.fd);
        let pkey = p.key;
        let rep = self.send(out, &mkreq(if dir { "RMDIR" } else { "UNLINK" }, parent, 0, 0, &[], &[name], &[]));
        let host = sys::unlinkat(pfd, name, if dir { libc::AT_REMOVEDIR } else { 0 });
        if self.cmp_errno(out, if dir { "rmdir" } else { "unlink" }, &rep, host) {
            self.mark_mut(pkey);
            self.purge_forgotten();
        }
    }

    fn purge_forgotten(&mut self) {
        let dead: Vec<(u64, u64)> = self
            .forgotten
            .iter()
            .filter(|(_, (_, fd))| sys::fstat(raw(fd)).map(|st| st.st_nlink == 0).unwrap_or(true))
            .map(|(k, _)| *k)
            .collect();
        for k in dead {
            self.forgotten.remove(&k);
        }
    }

    pub fn rename(&mut self, out: &mut Outcome, p1: u64, n1: &[u8], p2: u64, n2: &[u8], flags: u32) {
        let (Some(a), Some(b)) = (self.nodes.get(&p1), self.nodes.get(&p2)) else { return };
        let (f1, f2, k1, k2) = (raw(&a.fd), raw(&b.fd), a.key, b.key);
        let req = if flags == 0 {
            mkreq("RENAME", p1, 0, 0, &[("newdir", p2)], &[n1, n2], &[])
        } else {
            mkreq("RENAME2", p1, 0, 0, &[("newdir", p2), ("flags", flags as u64)], &[n1, n2], &[])
        };
        let rep = self.send(out, &req);
        let host = sys::renameat2(f1, n1, f2, n2, flags);
        if self.cmp_errno(out, "rename", &rep, host) {
            self.mark_mut(k1);
            self.mark_mut(k2);
            self.purge_forgotten();
        }
    }

    pub fn open(&mut self, out: &mut Outcome, nodeid: u64, flags: u32) -> Option<usize> {
        let node = self.nodes.get(&nodeid)?;
        let nfd = raw(&node.fd);
        let ifmt = node.ifmt;
        let key = node.key;
        let dir = ifmt == libc::S_IFDIR;
        if self.no_open && !dir {
            // zero-message open: the client never sends OPEN; a stray one is answered ENOSYS
            let rep = self.send(out, &mkreq("OPEN", nodeid, 0, 0, &[("flags", flags as u64)], &[], &[]));
            if rep.error != -libc::ENOSYS {
                out.fail("host/open/no-open-mode", format!("OPEN in zero-message-open mode answered {}", rep.error));
            }
            // the model "opens" locally
            if ifmt != libc::S_IFREG {
                return None;
            }
            let sfd = sys::reopen(nfd, (flags as i32 & !libc::O_TRUNC) | 0).ok()?;
            self.handles.push(SHandle { fh: 0, nodeid, sfd, flags: flags & !(libc::O_TRUNC as u32), dir: false, live: true });
            return Some(self.handles.len() - 1);
        }
        if dir {
            return self.opendir(out, nodeid);
        }
        let rep = self.send(out, &mkreq("OPEN", nodeid, 0, 0, &[("flags", flags as u64)], &[], &[]));
        if ifmt != libc::S_IFREG {
            // special files and symlinks are never opened for I/O
            if rep.error == 0 {
                out.fail("host/open/special-file-opened", format!("OPEN of an object of type {:o} succeeded", ifmt));
            }
            return None;
        }
        let host = sys::reopen(nfd, self.wb_flags(flags as i32));
        if self.cmp_errno(out, "open", &rep, host.as_ref().map(|_| ()).map_err(|e| *e)) {
            if flags as i32 & libc::O_TRUNC != 0 {
                self.mark_mut(key);
            }
            let fh = get(&rep.body, 0, "fuse_open_out", "fh");
            if self.handles.iter().any(|h| h.live && h.fh == fh) {
                out.fail("handle/open/duplicate", format!("handle {} handed out twice", fh));
            }
            self.handles.push(SHandle { fh, nodeid, sfd: host.unwrap(), flags, dir: false, live: true });
            return Some(self.handles.len() - 1);
        }
        None
    }

    pub fn opendir(&mut self, out: &mut Outcome, nodeid: u64) -> Option<usize> {
        let node = self.nodes.get(&nodeid)?;
        let nfd = raw(&node.fd);
        if node.ifmt != libc::S_IFDIR {
            return None;
        }
        if self.no_opendir {
            let rep = self.send(out, &mkreq("OPENDIR", nodeid, 0, 0, &[("flags", 0)], &[], &[]));
            if rep.error != -libc::ENOSYS {
                out.fail("host/opendir/no-opendir-mode", format!("OPENDIR in zero-message-opendir mode answered {}", rep.error));
            }
            let sfd = sys::reopen(nfd, libc::O_RDONLY | libc::O_DIRECTORY).ok()?;
            self.handles.push(SHandle { fh: 0, nodeid, sfd, flags: 0, dir: true, live: true });
            return Some(self.handles.len() - 1);
        }
        let rep = self.send(out, &mkreq("OPENDIR", nodeid, 0, 0, &[("flags", libc::O_RDONLY as u64)], &[], &[]));
        let host = sys::reopen(nfd, libc::O_RDONLY | libc::O_DIRECTORY);
        if self.cmp_errno(out, "opendir", &rep, host.as_ref().map(|_| ()).map_err(|e| *e)) {
            let fh = get(&rep.body, 0, "fuse_open_out", "fh");
            if self.handles.iter().any(|h| h.live && h.fh == fh) {
                out.fail("handle/opendir/duplicate", format!("handle {} handed out twice", fh));
            }
            self.handles.push(SHandle { fh, nodeid, sfd: host.unwrap(), flags: 0, dir: true, live: true });
            return Some(self.handles.len() - 1);
        }
        None
    }

    pub fn release(&mut self, out: &mut Outcome, hi: usize) {
        let Some(h) = self.handles.get(hi) else { return };
        if !h.live {
            return;
        }
        let (fh, nodeid, dir, flags) = (h.fh, h.nodeid, h.dir, h.flags);
        let zero = if dir { self.no_opendir } else { self.no_open };
        if !zero {
            let rep = self.send(out, &mkreq(if dir { "RELEASEDIR" } else { "RELEASE" }, nodeid, 0, 0, &[("fh", fh), ("flags", flags as u64)], &[], &[]));
            if rep.error != 0 {
                out.fail("handle/release/failed", format!("release of a live handle answered {}", rep.error));
            }
        }
        self.handles[hi].live = false;
    }

    pub fn read(&mut self, out: &mut Outcome, hi: usize, off: u64, size: u32) {
        let Some(h) = self.handles.get(hi) else { return };
        if !h.live || h.dir {
            return;
        }
        let (fh, nodeid, flags, sfd) = (h.fh, h.nodeid, h.flags, raw(&h.sfd));
        if !self.nodes.contains_key(&nodeid) && self.no_open {
            return;
        }
        let acc = flags as i32 & libc::O_ACCMODE;
        // ... nor READ on a write-only handle (except for writeback caching, not modelled here)
        if acc == libc::O_WRONLY {
            return;
        }
        let rep = self.send(out, &mkreq("READ", nodeid, 0, 0, &[("fh", fh), ("offset", off), ("size", size as u64), ("flags", flags as u64)], &[], &[]));
        let host = sys::pread(sfd, size as usize, off);
        // with writeback caching a write-only handle is readable (the kernel may read for partial page writes)
        if acc == libc::O_WRONLY && (self.writeback || self.no_open) {
            return;
        }
        if self.cmp_errno(out, "read", &rep, host.as_ref().map(|_| ()).map_err(|e| *e)) && rep.body != host.unwrap() {
            out.fail("host/read/data", format!("read({}, {}) returned different bytes than the host file", off, size));
        }
    }

    pub fn write(&mut self, out: &mut Outcome, hi: usize, off: u64, data: &[u8]) {
        let Some(h) = self.handles.get(hi) else { return };
        if !h.live || h.dir {
            return;
        }
        let (fh, nodeid, flags, sfd) = (h.fh, h.nodeid, h.flags, raw(&h.sfd));
        let Some(node) = self.nodes.get(&nodeid) else { return };
        let key = node.key;
        // a kernel client never sends WRITE on a handle that was not opened for writing
        if flags as i32 & libc::O_ACCMODE == libc::O_RDONLY {
            return;
        }
        let mut off = off;
        // a kernel client positions writes on an O_APPEND file at its idea of end-of-file; with
        // writeback caching it flushes dirty pages later and in any order, i.e. at arbitrary offsets
        if flags as i32 & libc::O_APPEND != 0 && !self.writeback {
            off = sys::fstat(sfd).map(|s| s.st_size as u64).unwrap_or(0);
        }
        // page-cache flushes of a writeback client carry no open flags (write_in.flags == 0)
        let wflags = if self.writeback && flags as i32 & libc::O_APPEND != 0 { 0 } else { flags };
        let rep = self.send(
            out,
            &mkreq("WRITE", nodeid, 0, 0, &[("fh", fh), ("offset", off), ("size", data.len() as u64), ("flags", wflags as u64)], &[], data),
        );
        let host = if self.no_open {
            // zero-message open: the server opens the inode O_RDWR for each write
            sys::reopen(raw(&self.nodes.get(&nodeid).unwrap().fd), libc::O_RDWR).and_then(|f| sys::pwrite(raw(&f), data, off))
        } else {
            sys::pwrite(sfd, data, off)
        };
        if self.cmp_errno(out, "write", &rep, host.as_ref().map(|_| ()).map_err(|e| *e)) {
            self.mark_mut(key);
            let n = get(&rep.body, 0, "fuse_write_out", "size") as usize;
            if n != host.unwrap() {
                out.fail("host/write/count", format!("write of {} bytes reported {}", data.len(), n));
            }
        }
    }

    pub fn fallocate(&mut self, out: &mut Outcome, hi: usize, mode: u32, off: u64, len: u64) {
        let Some(h) = self.handles.get(hi) else { return };
        if !h.live || h.dir {
            return;
        }
        let (fh, nodeid, sfd) = (h.fh, h.nodeid, raw(&h.sfd));
        if h.flags as i32 & libc::O_ACCMODE == libc::O_RDONLY {
            return;
        }
        let Some(node) = self.nodes.get(&nodeid) else { return };
        let key = node.key;
        let rep = self.send(out, &mkreq("FALLOCATE", nodeid, 0, 0, &[("fh", fh), ("offset", off), ("length", len), ("mode", mode as u64)], &[], &[]));
        let host = if self.no_open {
            sys::reopen(raw(&self.nodes.get(&nodeid).unwrap().fd), libc::O_RDWR).and_then(|f| sys::fallocate(raw(&f), mode as i32, off as i64, len as i64))
        } else {
            sys::fallocate(sfd, mode as i32, off as i64, len as i64)
        };
        if self.cmp_errno(out, "fallocate", &rep, host) {
            self.mark_mut(key);
        }
    }

    pub fn lseek(&mut self, out: &mut Outcome, hi: usize, off: u64, whence: u32) {
        let Some(h) = self.handles.get(hi) else { return };
        if !h.live || h.dir || self.no_open {
            return;
        }
        let (fh, nodeid, sfd) = (h.fh, h.nodeid, raw(&h.sfd));
        let rep = self.send(out, &mkreq("LSEEK", nodeid, 0, 0, &[("fh", fh), ("offset", off), ("whence", whence as u64)], &[], &[]));
        let host = sys::lseek(sfd, off as i64, whence as i32);
        if whence == libc::SEEK_DATA as u32 || whence == libc::SEEK_HOLE as u32 {
            // Where data ends and holes begin is a property of the file's block allocation (delayed
            // allocation, unwritten extents after ZERO_RANGE, writeback timing), which differs between
            // the exported file and its shadow copy although their contents are equal. The oracle is
            // therefore semantic: offsets in range, ENXIO exactly at/after end of file, and every region
            // the reply declares a hole reads as zeros.
            let size = sys::fstat(sfd).map(|s| s.st_size as u64).unwrap_or(0);
            // the handle may be write-only: read through a fresh descriptor of the same shadow file
            let rfd = sys::openat(libc::AT_FDCWD, format!("/proc/self/fd/{}", sfd).as_bytes(), libc::O_RDONLY, 0);
            let Ok(rfd) = rfd else { return };
            let rraw = raw(&rfd);
            let zero_between = |a: u64, b: u64| -> bool {
                let mut pos = a;
                while pos < b {
                    match sys::pread(rraw, (b - pos).min(1 << 16) as usize, pos) {
                        Ok(v) if !v.is_empty() => {
                            if v.iter().any(|x| *x != 0) {
                                return false;
                            }
                            pos += v.len() as u64;
                        }
                        _ => break,
                    }
                }
                true
            };
            if off >= size {
                if rep.error != -libc::ENXIO {
                    out.fail("host/lseek/result", format!("lseek({}, {}) at/after end of file ({}) answered {}", off, whence, size, rep.error));
                }
                return;
            }
            let got = if rep.error == 0 && rep.body.len() >= 8 { get(&rep.body, 0, "fuse_lseek_out", "offset") } else { u64::MAX };
            if whence == libc::SEEK_DATA as u32 {
                let hole_end = if rep.error == -libc::ENXIO {
                    size
                } else if rep.error == 0 {
                    got
                } else {
                    out.fail("host/lseek/result", format!("SEEK_DATA({}) answered {}", off, rep.error));
                    return;
                };
                if rep.error == 0 && (got < off || got >= size) {
                    out.fail("host/lseek/offset", format!("SEEK_DATA({}) = {} outside [{}, {})", off, got, off, size));
                } else if !zero_between(off, hole_end) {
                    out.fail("host/lseek/offset", format!("SEEK_DATA({}) skipped to {} over bytes that are not zero", off, hole_end));
                }
            } else if rep.error != 0 || got < off || got > size {
                out.fail("host/lseek/offset", format!("SEEK_HOLE({}) answered error {} offset {} (file size {})", off, rep.error, got, size));
            }
            return;
        }
        if self.cmp_errno(out, "lseek", &rep, host.map(|_| ())) {
            let got = get(&rep.body, 0, "fuse_lseek_out", "offset") as i64;
            if Ok(got) != host {
                out.fail("host/lseek/offset", format!("lseek({}, {}) = {} but the host gives {:?}", off, whence, got, host));
            }
        }
    }
    pub fn flush_fsync(&mut self, out: &mut Outcome, hi: usize, fsync: bool, datasync: bool) {
        let Some(h) = self.handles.get(hi) else { return };
        if !h.live {
            return;
        }
        let (fh, nodeid, dir) = (h.fh, h.nodeid, h.dir);
        if !self.nodes.contains_key(&nodeid) && (self.no_open || self.no_opendir) {
            return;
        }
        let op = if fsync {
            if dir {
                "FSYNCDIR"
            } else {
                "FSYNC"
            }
        } else {
            "FLUSH"
        };
        if !fsync && (dir || self.no_open) {
            return;
        }
        let rep = if fsync {
            self.send(out, &mkreq(op, nodeid, 0, 0, &[("fh", fh), ("fsync_flags", datasync as u64)], &[], &[]))
        } else {
            self.send(out, &mkreq(op, nodeid, 0, 0, &[("fh", fh)], &[], &[]))
        };
        if rep.error != 0 && !((rep.error == -libc::ESTALE || rep.error == -libc::ENOMEM) && self.stale_ok.get()) {
            out.fail(format!("host/{}/failed", op.to_lowercase()), format!("{} on a live handle answered {}", op, rep.error));
        }
    }

    #[allow(clippy::too_many_arguments)]
    pub fn setattr(&mut self, out: &mut Outcome, nodeid: u64, h: Option<usize>, mode: Option<u32>, uid: Option<u32>, gid: Option<u32>, size: Option<u64>, times: Option<(Option<(i64, u32)>, Option<(i64, u32)>)>) {
        let Some(node) = self.nodes.get(&nodeid) else { return };
        let nfd = raw(&node.fd);
        let ifmt = node.ifmt;
        let key = node.key;
        let mut valid = 0u64;
        let mut f: Vec<(&str, u64)> = vec![];
        let hd = h.and_then(|i| self.handles.get(i)).filter(|h| h.live && h.nodeid == nodeid && !h.dir && !self.no_open);
        let hfd = hd.map(|h| raw(&h.sfd));
        if let Some(hd) = hd {
            valid |= c("FATTR_FH");
            f.push(("fh", hd.fh));
        }
        if let Some(m) = mode {
            valid |= c("FATTR_MODE");
            f.push(("mode", m as u64));
        }
        if let Some(u) = uid {
            valid |= c("FATTR_UID");
            f.push(("uid", u as u64));
        }
        if let Some(g) = gid {
            valid |= c("FATTR_GID");
            f.push(("gid", g as u64));
        }
        if let Some(s) = size {
            valid |= c("FATTR_SIZE");
            f.push(("size", s));
        }
        let mut ts = [libc::timespec { tv_sec: 0, tv_nsec: libc::UTIME_OMIT }, libc::timespec { tv_sec: 0, tv_nsec: libc::UTIME_OMIT }];
        if let Some((a, m)) = times {
            match a {
                Some((s, n)) => {
                    valid |= c("FATTR_ATIME");
                    f.push(("atime", s as u64));
                    f.push(("atimensec", n as u64));
                    ts[0] = libc::timespec { tv_sec: s, tv_nsec: n as i64 };
                }
                None => {
                    valid |= c("FATTR_ATIME") | c("FATTR_ATIME_NOW");
                    ts[0].tv_nsec = libc::UTIME_NOW;
                }
            }
            match m {
                Some((s, n)) => {
                    valid |= c("FATTR_MTIME");
                    f.push(("mtime", s as u64));
                    f.push(("mtimensec", n as u64));
                    ts[1] = libc::timespec { tv_sec: s, tv_nsec: n as i64 };
                }
                None => {
                    valid |= c("FATTR_MTIME") | c("FATTR_MTIME_NOW");
                    ts[1].tv_nsec = libc::UTIME_NOW;
                }
            }
        }
        f.push(("valid", valid));
        let rep = self.send(out, &mkreq("SETATTR", nodeid, 0, 0, &f, &[], &[]));
        // host: the same calls in the documented order mode, owner, size, times; first failure wins
        let host: Result<(), i32> = (|| {
            if let Some(m) = mode {
                match hfd {
                    Some(fd) => {
                        if unsafe { libc::fchmod(fd, m) } < 0 {
                            return Err(sys::errno());
                        }
                    }
                    None => sys::chmod_path(&sys::procpath(nfd), m)?,
                }
            }
            if uid.is_some() || gid.is_some() {
                sys::fchown_fd(nfd, uid.unwrap_or(u32::MAX), gid.unwrap_or(u32::MAX))?;
            }
            if let Some(s) = size {
                match hfd {
                    Some(fd) => sys::ftruncate(fd, s as i64)?,
                    None => {
                        if ifmt != libc::S_IFREG {
                            return Err(if ifmt == libc::S_IFDIR { libc::EISDIR } else { libc::EBADF });
                        }
                        let fd = sys::reopen(nfd, libc::O_RDWR | libc::O_NONBLOCK)?;
                        sys::ftruncate(raw(&fd), s as i64)?
                    }
                }
            }
            if times.is_some() {
                match hfd {
                    Some(fd) => {
                        if unsafe { libc::futimens(fd, ts.as_ptr()) } < 0 {
                            return Err(sys::errno());
                        }
                    }
                    None => sys::utimens_path(&sys::procpath(nfd), &ts)?,
                }
            }
            Ok(())
        })();
        if self.cmp_errno(out, "setattr", &rep, host) {
            self.mark_mut(key);
            if let (Some(a), Ok(st)) = (attr_of(&rep), sys::fstat(nfd)) {
                self.cmp_attr(out, "setattr", &a, &st);
                if let Some((_, Some((s, n)))) = times {
                    if a.mtime != s as u64 || a.mtimensec != n {
                        out.fail("host/setattr/mtime", format!("mtime set to {}.{} but the reply says {}.{}", s, n, a.mtime, a.mtimensec));
                    }
                }
                if let Some((_, None)) = times {
                    // "now": the reference was stamped by the same kind of call a moment later
                    if (a.mtime as i64 - st.st_mtime).abs() > 5 {
                        out.fail("host/setattr/mtime-now", format!("mtime set to 'now' but the reply says {} (host reference {})", a.mtime, st.st_mtime));
                    }
                }
                if let Some((None, _)) = times {
                    if (a.atime as i64 - st.st_atime).abs() > 5 {
                        out.fail("host/setattr/atime-now", format!("atime set to 'now' but the reply says {} (host reference {})", a.atime, st.st_atime));
                    }
                }
            }
        } else if rep.error == 0 || host.is_ok() {
            // effects diverged: keep the trees comparable as far as possible
        }
    }

    pub fn readlink(&mut self, out: &mut Outcome, nodeid: u64) {
        let Some(node) = self.nodes.get(&nodeid) else { return };
        let nfd = raw(&node.fd);
        let rep = self.send(out, &mkreq("READLINK", nodeid, 0, 0, &[], &[], &[]));
        let host = sys::readlinkat_fd(nfd);
        if self.cmp_errno(out, "readlink", &rep, host.as_ref().map(|_| ()).map_err(|e| *e)) && rep.body != host.unwrap() {
            out.fail("host/readlink/target", "link target differs from the host's");
        }
    }

    pub fn statfs(&mut self, out: &mut Outcome, nodeid: u64) {
        let Some(node) = self.nodes.get(&nodeid) else { return };
        let nfd = raw(&node.fd);
        let rep = self.send(out, &mkreq("STATFS", nodeid, 0, 0, &[], &[], &[]));
        let host = sys::fstatvfs(nfd);
        if self.cmp_errno(out, "statfs", &rep, host.as_ref().map(|_| ()).map_err(|e| *e)) {
            let st = host.unwrap();
            let b = &rep.body;
            let g = |f: &str| get(b, 0, "fuse_statfs_out", f);
            if g("st.bsize") != st.f_bsize as u32 as u64 || g("st.namelen") != st.f_namemax as u32 as u64 || g("st.frsize") != st.f_frsize as u32 as u64 || g("st.blocks") != st.f_blocks || g("st.files") != st.f_files {
                out.fail("host/statfs/values", "statfs values differ from fstatvfs on the host");
            }
        }
    }

    pub fn xattr(&mut self, out: &mut Outcome, nodeid: u64, which: u8, key: &[u8], value: &[u8], size: u32, flags: u32) {
        let Some(node) = self.nodes.get(&nodeid) else { return };
        let nfd = raw(&node.fd);
        let nkey = node.key;
        if node.ifmt != libc::S_IFREG && node.ifmt != libc::S_IFDIR {
            return;
        }
        let p = sys::procpath(nfd);
        let enabled = self.cfg.xattr;
        match which % 4 {
            0 => {
                let rep = self.send(out, &mkreq("SETXATTR", nodeid, 0, 0, &[("size", value.len() as u64), ("flags", flags as u64)], &[key], value));
                if !enabled {
                    if rep.error != -libc::ENOSYS {
                        out.fail("host/setxattr/disabled", format!("xattr support is off but SETXATTR answered {}", rep.error));
                    }
                    return;
                }
                let host = sys::setxattr(&p, key, value, flags as i32);
                if self.cmp_errno(out, "setxattr", &rep, host) {
                    self.mark_mut(nkey);
                }
            }
            1 => {
                let rep = self.send(out, &mkreq("GETXATTR", nodeid, 0, 0, &[("size", size as u64)], &[key], &[]));
                if !enabled {
                    if rep.error != -libc::ENOSYS {
                        out.fail("host/getxattr/disabled", format!("xattr support is off but GETXATTR answered {}", rep.error));
                    }
                    return;
                }
                let host = sys::getxattr(&p, key, size as usize);
                if self.cmp_errno(out, "getxattr", &rep, host.as_ref().map(|_| ()).map_err(|e| *e)) {
                    let (n, v) = host.unwrap();
                    if size == 0 {
                        if get(&rep.body, 0, "fuse_getxattr_out", "size") != n as u64 {
                            out.fail("host/getxattr/size", "size query differs from the host");
                        }
                    } else if rep.body != v {
                        out.fail("host/getxattr/value", "value differs from the host");
                    }
                }
            }
            2 => {
                let rep = self.send(out, &mkreq("LISTXATTR", nodeid, 0, 0, &[("size", size as u64)], &[], &[]));
                if !enabled {
                    if rep.error != -libc::ENOSYS {
                        out.fail("host/listxattr/disabled", format!("xattr support is off but LISTXATTR answered {}", rep.error));
                    }
                    return;
                }
                let host = sys::listxattr(&p, size as usize);
                if self.cmp_errno(out, "listxattr", &rep, host.as_ref().map(|_| ()).map_err(|e| *e)) {
                    let (n, v) = host.unwrap();
                    if size == 0 {
                        if get(&rep.body, 0, "fuse_getxattr_out", "size") != n as u64 {
                            out.fail("host/listxattr/size", "size query differs from the host");
                        }
                    } else if rep.body != v {
                        out.fail("host/listxattr/value", "name list differs from the host");
                    }
                }
            }
            _ => {
                let rep = self.send(out, &mkreq("REMOVEXATTR", nodeid, 0, 0, &[], &[key], &[]));
                if !enabled {
                    if rep.error != -libc::ENOSYS {
                        out.fail("host/removexattr/disabled", format!("xattr support is off but REMOVEXATTR answered {}", rep.error));
                    }
                    return;
                }
                let host = sys::removexattr(&p, key);
                if self.cmp_errno(out, "removexattr", &rep, host) {
                    self.mark_mut(nkey);
                }
            }
        }
    }

    /// one READDIR / READDIRPLUS request; returns the parsed entries (entry nodeid/attr, ino, off, type, name)
    pub fn readdir_raw(&mut self, out: &mut Outcome, hi: usize, off: u64, size: u32, plus: bool) -> Option<Vec<(Option<(u64, AttrRep)>, u64, u64, u32, Vec<u8>)>> {
        let h = self.handles.get(hi)?;
        if !h.live || !h.dir {
            return None;
        }
        let (fh, nodeid) = (h.fh, h.nodeid);
        let rep = self.send(out, &mkreq(if plus { "READDIRPLUS" } else { "READDIR" }, nodeid, 0, 0, &[("fh", fh), ("offset", off), ("size", size as u64)], &[], &[]));
        if rep.nreplies != 1 || rep.error != 0 {
            out.fail("dir/readdir/failed", format!("readdir(offset {}, size {}) answered {} ({} replies)", off, size, rep.error, rep.nreplies));
            return None;
        }
        if rep.body.len() > size as usize {
            out.fail("dir/readdir/oversize", format!("{} bytes returned for a {}-byte request", rep.body.len(), size));
        }
        let esz = if plus { ssize("fuse_entry_out") } else { 0 };
        let dsz = ssize("fuse_dirent");
        let b = &rep.body;
        let mut v = vec![];
        let mut pos = 0;
        while pos < b.len() {
            if pos + esz + dsz > b.len() {
                out.fail("dir/readdir/partial-record", "trailing partial record");
                break;
            }
            let e = if plus { Some((get(b, pos, "fuse_entry_out", "nodeid"), parse_attr(b, pos, "fuse_entry_out", "attr."))) } else { None };
            let dp = pos + esz;
            let namelen = get(b, dp, "fuse_dirent", "namelen") as usize;
            if dp + dsz + namelen > b.len() {
                out.fail("dir/readdir/partial-record", "name exceeds payload");
                break;
            }
            v.push((e, get(b, dp, "fuse_dirent", "ino"), get(b, dp, "fuse_dirent", "off"), get(b, dp, "fuse_dirent", "type") as u32, b[dp + dsz..dp + dsz + namelen].to_vec()));
            pos += esz + ((dsz + namelen + 7) & !7);
        }
        Some(v)
    }

    /// account the references a READDIRPLUS reply handed out
    pub fn take_plus_entries(&mut self, out: &mut Outcome, dir_nodeid: u64, ents: &[(Option<(u64, AttrRep)>, u64, u64, u32, Vec<u8>)]) {
        let Some(d) = self.nodes.get(&dir_nodeid) else { return };
        let dfd = raw(&d.fd);
        for (e, _ino, _off, _t, name) in ents {
            if let Some((nodeid, attr)) = e {
                if *nodeid == 0 {
                    continue;
                }
                match sys::openat(dfd, name, libc::O_PATH | libc::O_NOFOLLOW, 0) {
                    Ok(sfd) => self.take_entry(out, "readdirplus", *nodeid, attr, sfd),
                    Err(_) => out.fail("dir/readdirplus/phantom-entry", format!("entry {:?} does not exist on the host", String::from_utf8_lossy(name))),
                }
            }
        }
    }

    pub fn init_req(&self) -> crate::reqgen::Req {
        let flags = FUSE_ALL & !self.cfg.client_withholds;
        mkreq(
            "INIT",
            0,
            0,
            0,
            &[("major", 7), ("minor", 38), ("max_readahead", 65536), ("flags", (flags & 0xffff_ffff) | c("FUSE_INIT_EXT")), ("flags2", flags >> 32)],
            &[],
            &[],
        )
    }

    /// DESTROY + INIT: the client starts over, the server must have dropped everything
    pub fn reinit(&mut self, out: &mut Outcome) {
        let rep = self.send(out, &mkreq("DESTROY", 0, 0, 0, &[], &[], &[]));
        if rep.nreplies != 1 || rep.error != 0 {
            out.fail("handle/destroy/failed", format!("DESTROY answered {} ({} replies)", rep.error, rep.nreplies));
        }
        let root = self.nodes.remove(&1);
        self.nodes.clear();
        self.by_key.clear();
        self.forgotten.clear();
        for h in self.handles.iter_mut() {
            h.live = false;
        }
        if let Some(r) = root {
            self.by_key.insert(r.key, 1);
            self.nodes.insert(1, r);
        }
        let req = self.init_req();
        let rep = self.send(out, &req);
        if rep.error != 0 {
            out.fail("handle/reinit/failed", format!("INIT after DESTROY answered {}", rep.error));
        }
    }

    /// a handle is usable only with the inode it was opened on and only until released
    pub fn bad_handle(&mut self, out: &mut Outcome, hi: usize, other: u64) {
        let Some(h) = self.handles.get(hi) else { return };
        let (fh, nodeid, dir, live) = (h.fh, h.nodeid, h.dir, h.live);
        let zero = if dir { self.no_opendir } else { self.no_open };
        if zero || fh == 0 {
            return;
        }
        let op = if dir { "READDIR" } else { "READ" };
        if !live {
            // released (or wiped by DESTROY): must be refused, unless the number was handed out again
            if self.handles.iter().any(|x| x.live && x.fh == fh) {
                return;
            }
            let rep = self.send(out, &mkreq(op, nodeid, 0, 0, &[("fh", fh), ("offset", 0), ("size", 4096)], &[], &[]));
            if rep.error != -libc::EBADF {
                out.fail("handle/use-after-release", format!("{} with a released handle answered {}", op, rep.error));
            }
        } else if other != nodeid && self.nodes.contains_key(&other) {
            let rep = self.send(out, &mkreq(op, other, 0, 0, &[("fh", fh), ("offset", 0), ("size", 4096)], &[], &[]));
            if rep.error != -libc::EBADF {
                out.fail("handle/wrong-inode", format!("{} with a handle opened on inode {} was accepted for inode {} (answer {})", op, nodeid, other, rep.error));
            }
            let rep = self.send(out, &mkreq(if dir { "RELEASEDIR" } else { "RELEASE" }, other, 0, 0, &[("fh", fh)], &[], &[]));
            if rep.error != -libc::EBADF {
                out.fail("handle/wrong-inode-release", format!("release through the wrong inode answered {}", rep.error));
            }
        }
    }

    /// the client lets go of everything it holds: every handle released, every reference forgotten
    pub fn release_everything(&mut self, out: &mut Outcome) {
        for i in 0..self.handles.len() {
            if self.handles[i].live {
                self.release(out, i);
            }
        }
        self.handles.clear();
        // a client may return the references of one inode in several records of one batch
        let mut ids: Vec<(u64, u64)> = vec![];
        for (k, v) in self.nodes.iter().filter(|(k, _)| **k != 1) {
            if v.count >= 2 && k % 2 == 0 {
                ids.push((*k, 1));
                ids.push((*k, v.count - 1));
            } else {
                ids.push((*k, v.count));
            }
        }
        for chunk in ids.chunks(7) {
            if chunk.len() == 1 {
                self.forget(out, chunk[0].0, chunk[0].1);
            } else {
                self.batch_forget(out, chunk);
            }
        }
        self.forgotten.clear();
    }

    /// compare the exported tree with the shadow tree on the host
    pub fn compare_trees(&self, out: &mut Outcome) {
        let a = sys::snapshot(&self.export, false);
        let b = sys::snapshot(&self.shadow, false);
        if a != b {
            let mut diff = vec![];
            for (k, v) in &a {
                match b.get(k) {
                    Some(w) if w == v => {}
                    Some(w) => diff.push(format!("{}: export [{}] vs reference [{}]", k, v, w)),
                    None => diff.push(format!("{}: only in the export [{}]", k, v)),
                }
            }
            for k in b.keys() {
                if !a.contains_key(k) {
                    diff.push(format!("{}: only in the reference", k));
                }
            }
            diff.truncate(4);
            out.fail("host/final-tree", format!("exported tree differs from the tree produced by the same system calls: {}", diff.join("; ")));
        } else if sys::link_partition(&self.export) != sys::link_partition(&self.shadow) {
            out.fail("host/final-tree-links", "hard-link structure differs");
        }
    }
}

pub fn fresh_dirs(dirs: &[&str]) {
    for d in dirs {
        sys::rm_rf(d);
        std::fs::create_dir_all(d).unwrap();
        let _ = sys::chmod_path(d.as_bytes(), 0o777);
    }
}

#[allow(dead_code)]
fn _u() {
    let _ = codec::IN_HDR;
}
