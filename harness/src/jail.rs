//! Mount-namespace + chroot jail for everything that serves real directories,
//! and thin syscall wrappers (errno-returning) used as the host reference.
use std::ffi::CString;
use std::os::unix::io::{AsRawFd, FromRawFd, OwnedFd, RawFd};

pub fn errno() -> i32 {
    std::io::Error::last_os_error().raw_os_error().unwrap_or(0)
}

pub fn cstr(s: &[u8]) -> CString {
    CString::new(s.to_vec()).unwrap_or_else(|_| CString::new("?").unwrap())
}

/// Enter a private mount namespace and chroot into a fresh scratch directory on ext4.
/// After this call "/" is the jail; "/proc" is available inside.
pub fn enter() {
    // everything read from /verif must be loaded before the chroot
    let _ = crate::codec::layout();
    unsafe {
        let base = format!("/var/tmp/fbv-jail-{}", libc::getpid());
        let _ = std::fs::remove_dir_all(&base);
        std::fs::create_dir_all(&base).expect("jail dir");
        assert_eq!(libc::unshare(libc::CLONE_NEWNS), 0, "unshare(CLONE_NEWNS): {}", errno());
        let root = cstr(b"/");
        let none = cstr(b"none");
        assert_eq!(
            libc::mount(none.as_ptr(), root.as_ptr(), std::ptr::null(), libc::MS_REC | libc::MS_PRIVATE, std::ptr::null()),
            0,
            "make / private: {}",
            errno()
        );
        let b = cstr(base.as_bytes());
        assert_eq!(libc::mount(b.as_ptr(), b.as_ptr(), std::ptr::null(), libc::MS_BIND, std::ptr::null()), 0, "bind jail: {}", errno());
        // copy-up in the overlay stages data in a temporary file under the system temp directory
        std::fs::create_dir_all(format!("{}/tmp", base)).unwrap();
        let p = format!("{}/proc", base);
        std::fs::create_dir_all(&p).unwrap();
        let pc = cstr(p.as_bytes());
        let proc_ = cstr(b"proc");
        if libc::mount(proc_.as_ptr(), pc.as_ptr(), proc_.as_ptr(), 0, std::ptr::null()) != 0 {
            let hp = cstr(b"/proc");
            assert_eq!(libc::mount(hp.as_ptr(), pc.as_ptr(), std::ptr::null(), libc::MS_BIND | libc::MS_REC, std::ptr::null()), 0, "bind /proc: {}", errno());
        }
        assert_eq!(libc::chroot(b.as_ptr()), 0, "chroot: {}", errno());
        assert_eq!(libc::chdir(root.as_ptr()), 0);
        libc::umask(0);
    }
}

pub type R<T> = Result<T, i32>;

fn chk(r: libc::c_long) -> R<libc::c_long> {
    if r < 0 {
        Err(errno())
    } else {
        Ok(r)
    }
}

pub fn openat(dfd: RawFd, name: &[u8], flags: i32, mode: u32) -> R<OwnedFd> {
    let c = cstr(name);
    let r = unsafe { libc::openat(dfd, c.as_ptr(), flags | libc::O_CLOEXEC, mode) };
    chk(r as libc::c_long).map(|fd| unsafe { OwnedFd::from_raw_fd(fd as i32) })
}

pub fn open_path(path: &str) -> R<OwnedFd> {
    openat(libc::AT_FDCWD, path.as_bytes(), libc::O_PATH | libc::O_NOFOLLOW, 0)
}

pub fn procpath(fd: RawFd) -> Vec<u8> {
    format!("/proc/self/fd/{}", fd).into_bytes()
}

/// reopen an O_PATH fd for I/O through /proc (the reference way to "open this inode")
pub fn reopen(fd: RawFd, flags: i32) -> R<OwnedFd> {
    openat(libc::AT_FDCWD, &procpath(fd), flags & !libc::O_NOFOLLOW & !libc::O_CREAT & !libc::O_EXCL, 0)
}

pub fn fstat(fd: RawFd) -> R<libc::stat64> {
    let mut st: libc::stat64 = unsafe { std::mem::zeroed() };
    let e = cstr(b"");
    let r = unsafe { libc::fstatat64(fd, e.as_ptr(), &mut st, libc::AT_EMPTY_PATH | libc::AT_SYMLINK_NOFOLLOW) };
    chk(r as libc::c_long).map(|_| st)
}

pub fn lstat(path: &str) -> R<libc::stat64> {
    let mut st: libc::stat64 = unsafe { std::mem::zeroed() };
    let c = cstr(path.as_bytes());
    let r = unsafe { libc::fstatat64(libc::AT_FDCWD, c.as_ptr(), &mut st, libc::AT_SYMLINK_NOFOLLOW) };
    chk(r as libc::c_long).map(|_| st)
}

pub fn mkdirat(dfd: RawFd, name: &[u8], mode: u32) -> R<()> {
    let c = cstr(name);
    chk(unsafe { libc::mkdirat(dfd, c.as_ptr(), mode) } as libc::c_long).map(|_| ())
}
pub fn mknodat(dfd: RawFd, name: &[u8], mode: u32, rdev: u64) -> R<()> {
    let c = cstr(name);
    chk(unsafe { libc::mknodat(dfd, c.as_ptr(), mode, rdev) } as libc::c_long).map(|_| ())
}
pub fn symlinkat(target: &[u8], dfd: RawFd, name: &[u8]) -> R<()> {
    let t = cstr(target);
    let c = cstr(name);
    chk(unsafe { libc::symlinkat(t.as_ptr(), dfd, c.as_ptr()) } as libc::c_long).map(|_| ())
}
pub fn linkat_fd(fd: RawFd, dfd: RawFd, name: &[u8]) -> R<()> {
    let e = cstr(b"");
    let c = cstr(name);
    chk(unsafe { libc::linkat(fd, e.as_ptr(), dfd, c.as_ptr(), libc::AT_EMPTY_PATH) } as libc::c_long).map(|_| ())
}
pub fn unlinkat(dfd: RawFd, name: &[u8], flags: i32) -> R<()> {
    let c = cstr(name);
    chk(unsafe { libc::unlinkat(dfd, c.as_ptr(), flags) } as libc::c_long).map(|_| ())
}
pub fn renameat2(d1: RawFd, n1: &[u8], d2: RawFd, n2: &[u8], flags: u32) -> R<()> {
    let a = cstr(n1);
    let b = cstr(n2);
    chk(unsafe { libc::syscall(libc::SYS_renameat2, d1, a.as_ptr(), d2, b.as_ptr(), flags) }).map(|_| ())
}
pub fn readlinkat_fd(fd: RawFd) -> R<Vec<u8>> {
    let e = cstr(b"");
    let mut buf = vec![0u8; 4096];
    let r = unsafe { libc::readlinkat(fd, e.as_ptr(), buf.as_mut_ptr() as *mut libc::c_char, buf.len()) };
    chk(r as libc::c_long).map(|n| {
        buf.truncate(n as usize);
        buf
    })
}
pub fn pread(fd: RawFd, n: usize, off: u64) -> R<Vec<u8>> {
    let mut buf = vec![0u8; n];
    let r = unsafe { libc::pread64(fd, buf.as_mut_ptr() as *mut libc::c_void, n, off as i64) };
    chk(r as libc::c_long).map(|k| {
        buf.truncate(k as usize);
        buf
    })
}
pub fn pwrite(fd: RawFd, data: &[u8], off: u64) -> R<usize> {
    let r = unsafe { libc::pwrite64(fd, data.as_ptr() as *const libc::c_void, data.len(), off as i64) };
    chk(r as libc::c_long).map(|k| k as usize)
}
pub fn ftruncate(fd: RawFd, size: i64) -> R<()> {
    chk(unsafe { libc::ftruncate64(fd, size) } as libc::c_long).map(|_| ())
}
pub fn fallocate(fd: RawFd, mode: i32, off: i64, len: i64) -> R<()> {
    chk(unsafe { libc::fallocate64(fd, mode, off, len) } as libc::c_long).map(|_| ())
}
pub fn lseek(fd: RawFd, off: i64, whence: i32) -> R<i64> {
    chk(unsafe { libc::lseek64(fd, off, whence) } as libc::c_long).map(|v| v as i64)
}
pub fn chmod_path(path: &[u8], mode: u32) -> R<()> {
    let c = cstr(path);
    chk(unsafe { libc::fchmodat(libc::AT_FDCWD, c.as_ptr(), mode, 0) } as libc::c_long).map(|_| ())
}
pub fn fchown_fd(fd: RawFd, uid: u32, gid: u32) -> R<()> {
    let e = cstr(b"");
    chk(unsafe { libc::fchownat(fd, e.as_ptr(), uid, gid, libc::AT_EMPTY_PATH | libc::AT_SYMLINK_NOFOLLOW) } as libc::c_long).map(|_| ())
}
pub fn utimens_path(path: &[u8], ts: &[libc::timespec; 2]) -> R<()> {
    let c = cstr(path);
    chk(unsafe { libc::utimensat(libc::AT_FDCWD, c.as_ptr(), ts.as_ptr(), 0) } as libc::c_long).map(|_| ())
}
pub fn setxattr(path: &[u8], name: &[u8], value: &[u8], flags: i32) -> R<()> {
    let p = cstr(path);
    let n = cstr(name);
    chk(unsafe { libc::setxattr(p.as_ptr(), n.as_ptr(), value.as_ptr() as *const libc::c_void, value.len(), flags) } as libc::c_long).map(|_| ())
}
pub fn lsetxattr(path: &[u8], name: &[u8], value: &[u8], flags: i32) -> R<()> {
    let p = cstr(path);
    let n = cstr(name);
    chk(unsafe { libc::lsetxattr(p.as_ptr(), n.as_ptr(), value.as_ptr() as *const libc::c_void, value.len(), flags) } as libc::c_long).map(|_| ())
}
pub fn getxattr(path: &[u8], name: &[u8], size: usize) -> R<(usize, Vec<u8>)> {
    let p = cstr(path);
    let n = cstr(name);
    let mut buf = vec![0u8; size];
    let r = unsafe { libc::getxattr(p.as_ptr(), n.as_ptr(), buf.as_mut_ptr() as *mut libc::c_void, size) };
    chk(r as libc::c_long).map(|k| {
        buf.truncate((k as usize).min(size));
        (k as usize, buf)
    })
}
pub fn lgetxattr_all(path: &str) -> Vec<(Vec<u8>, Vec<u8>)> {
    // all xattrs of a path (no follow), sorted
    let p = cstr(path.as_bytes());
    let mut names = vec![0u8; 65536];
    let r = unsafe { libc::llistxattr(p.as_ptr(), names.as_mut_ptr() as *mut libc::c_char, names.len()) };
    if r <= 0 {
        return vec![];
    }
    names.truncate(r as usize);
    let mut out = vec![];
    for n in names.split(|b| *b == 0).filter(|n| !n.is_empty()) {
        let nc = cstr(n);
        let mut v = vec![0u8; 65536];
        let k = unsafe { libc::lgetxattr(p.as_ptr(), nc.as_ptr(), v.as_mut_ptr() as *mut libc::c_void, v.len()) };
        if k >= 0 {
            v.truncate(k as usize);
            out.push((n.to_vec(), v));
        }
    }
    out.sort();
    out
}
pub fn listxattr(path: &[u8], size: usize) -> R<(usize, Vec<u8>)> {
    let p = cstr(path);
    let mut buf = vec![0u8; size];
    let r = unsafe { libc::listxattr(p.as_ptr(), buf.as_mut_ptr() as *mut libc::c_char, size) };
    chk(r as libc::c_long).map(|k| {
        buf.truncate((k as usize).min(size));
        (k as usize, buf)
    })
}
pub fn removexattr(path: &[u8], name: &[u8]) -> R<()> {
    let p = cstr(path);
    let n = cstr(name);
    chk(unsafe { libc::removexattr(p.as_ptr(), n.as_ptr()) } as libc::c_long).map(|_| ())
}
pub fn fstatvfs(fd: RawFd) -> R<libc::statvfs64> {
    let mut st: libc::statvfs64 = unsafe { std::mem::zeroed() };
    chk(unsafe { libc::fstatvfs64(fd, &mut st) } as libc::c_long).map(|_| st)
}
pub fn fsync(fd: RawFd) -> R<()> {
    chk(unsafe { libc::fsync(fd) } as libc::c_long).map(|_| ())
}

/// per-thread credential switch (raw syscalls, like the code under test must do)
pub struct AsCaller {
    uid: u32,
    gid: u32,
}
impl AsCaller {
    pub fn new(uid: u32, gid: u32) -> AsCaller {
        unsafe {
            if gid != 0 {
                libc::syscall(libc::SYS_setresgid, -1i32, gid, -1i32);
            }
            if uid != 0 {
                libc::syscall(libc::SYS_setresuid, -1i32, uid, -1i32);
            }
        }
        AsCaller { uid, gid }
    }
}
impl Drop for AsCaller {
    fn drop(&mut self) {
        unsafe {
            if self.uid != 0 {
                libc::syscall(libc::SYS_setresuid, -1i32, 0u32, -1i32);
            }
            if self.gid != 0 {
                libc::syscall(libc::SYS_setresgid, -1i32, 0u32, -1i32);
            }
        }
    }
}

pub fn thread_euid() -> u32 {
    unsafe { libc::syscall(libc::SYS_geteuid) as u32 }
}
pub fn thread_egid() -> u32 {
    unsafe { libc::syscall(libc::SYS_getegid) as u32 }
}

/// effective capability words of the calling thread
pub fn thread_caps_effective() -> (u32, u32) {
    #[repr(C)]
    struct Hdr {
        version: u32,
        pid: i32,
    }
    #[repr(C)]
    #[derive(Default, Clone, Copy)]
    struct Data {
        effective: u32,
        permitted: u32,
        inheritable: u32,
    }
    let mut h = Hdr { version: 0x20080522, pid: 0 };
    let mut d = [Data::default(); 2];
    unsafe {
        libc::syscall(libc::SYS_capget, &mut h as *mut Hdr, d.as_mut_ptr());
    }
    (d[0].effective, d[1].effective)
}

pub fn rm_rf(path: &str) {
    let _ = std::fs::remove_dir_all(path);
    let _ = std::fs::remove_file(path);
}

pub fn fd_count() -> usize {
    std::fs::read_dir("/proc/self/fd").map(|d| d.count()).unwrap_or(0).saturating_sub(1)
}

pub fn raw(fd: &OwnedFd) -> RawFd {
    fd.as_raw_fd()
}

/// Snapshot of a directory tree: path -> description (type, mode, owner, size, content hash, link target, xattrs, rdev)
pub fn snapshot(root: &str, with_ino: bool) -> std::collections::BTreeMap<String, String> {
    let mut out = std::collections::BTreeMap::new();
    fn walk(base: &str, rel: &str, out: &mut std::collections::BTreeMap<String, String>, with_ino: bool) {
        let full = format!("{}{}", base, rel);
        let Ok(st) = lstat(&full) else { return };
        let t = st.st_mode & libc::S_IFMT;
        let mut desc = format!("mode={:o} uid={} gid={}", st.st_mode, st.st_uid, st.st_gid);
        if with_ino {
            desc.push_str(&format!(" ino={}", st.st_ino));
        }
        if t != libc::S_IFDIR {
            desc.push_str(&format!(" nlink={}", st.st_nlink));
        }
        match t {
            libc::S_IFREG => {
                let data = std::fs::read(&full).unwrap_or_default();
                desc.push_str(&format!(" size={} hash={:016x}", st.st_size, crate::engine::fnv(&data)));
            }
            libc::S_IFLNK => {
                let tgt = std::fs::read_link(&full).map(|p| p.to_string_lossy().to_string()).unwrap_or_default();
                desc.push_str(&format!(" -> {}", tgt));
            }
            libc::S_IFCHR | libc::S_IFBLK => desc.push_str(&format!(" rdev={}", st.st_rdev)),
            _ => {}
        }
        let xa = lgetxattr_all(&full);
        if !xa.is_empty() {
            desc.push_str(&format!(" xattr={:?}", xa.iter().map(|(k, v)| (String::from_utf8_lossy(k).to_string(), crate::mockfs::hex(v))).collect::<Vec<_>>()));
        }
        out.insert(if rel.is_empty() { "/".to_string() } else { rel.to_string() }, desc);
        if t == libc::S_IFDIR {
            if let Ok(rd) = std::fs::read_dir(&full) {
                let mut names: Vec<String> = rd.flatten().map(|e| e.file_name().to_string_lossy().to_string()).collect();
                names.sort();
                for n in names {
                    walk(base, &format!("{}/{}", rel, n), out, with_ino);
                }
            }
        }
    }
    walk(root, "", &mut out, with_ino);
    out
}

/// partition of regular files by identity (hard-link structure), as sorted groups of paths
pub fn link_partition(root: &str) -> Vec<Vec<String>> {
    let mut groups: std::collections::BTreeMap<(u64, u64), Vec<String>> = std::collections::BTreeMap::new();
    fn walk(base: &str, rel: &str, g: &mut std::collections::BTreeMap<(u64, u64), Vec<String>>) {
        let full = format!("{}{}", base, rel);
        let Ok(st) = lstat(&full) else { return };
        if st.st_mode & libc::S_IFMT == libc::S_IFDIR {
            if let Ok(rd) = std::fs::read_dir(&full) {
                for e in rd.flatten() {
                    walk(base, &format!("{}/{}", rel, e.file_name().to_string_lossy()), g);
                }
            }
        } else {
            g.entry((st.st_dev, st.st_ino)).or_default().push(rel.to_string());
        }
    }
    walk(root, "", &mut groups);
    let mut v: Vec<Vec<String>> = groups
        .into_values()
        .map(|mut g| {
            g.sort();
            g
        })
        .filter(|g| g.len() > 1)
        .collect();
    v.sort();
    v
}

/// raw getdents64 into a buffer of `cap` bytes: number of bytes the kernel returned
pub fn getdents_len(fd: RawFd, cap: usize) -> R<usize> {
    let mut buf = vec![0u8; cap];
    let r = unsafe { libc::syscall(libc::SYS_getdents64, fd, buf.as_mut_ptr(), cap) };
    if r < 0 {
        Err(errno())
    } else {
        Ok(r as usize)
    }
}
