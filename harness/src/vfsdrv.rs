//! VFS driver: scripted tree backends mounted in a Vfs behind Server, plus a
//! small FUSE client that speaks through handle_message and decodes replies
//! with the kernel layouts.
use crate::codec::{self, get, ssize, Hdr};
use crate::reqgen::{NameB, Req};
use crate::transport;
use fuse_backend_rs::abi::fuse_abi::{stat64, statvfs64, CreateIn, FsOptions, OpenOptions, SetattrValid};
use fuse_backend_rs::api::filesystem::{
    Context, DirEntry, Entry, FileSystem, GetxattrReply, ListxattrReply, ZeroCopyReader, ZeroCopyWriter,
};
use fuse_backend_rs::api::server::Server;
use fuse_backend_rs::api::{BackendFileSystem, Vfs, VfsOptions};
use serde::{Deserialize, Serialize};
use serde_json::{json, Value};
use std::any::Any;
use std::collections::BTreeMap;
use std::ffi::CStr;
use std::io;
use std::sync::{Arc, Mutex};
use std::time::Duration;

#[derive(Clone, Debug, Serialize, Deserialize, PartialEq)]
pub struct NodeSpec {
    pub name: String,
    pub dir: bool,
    pub uid: u32,
    pub gid: u32,
    pub children: Vec<NodeSpec>,
}

#[derive(Clone, Debug, Serialize, Deserialize, PartialEq)]
pub struct TreeSpec {
    /// inode number of the backend's root
    pub root_ino: u64,
    pub root_uid: u32,
    pub root_gid: u32,
    pub children: Vec<NodeSpec>,
}

#[derive(Clone, Debug)]
pub struct Node {
    pub ino: u64,
    pub parent: u64,
    pub dir: bool,
    pub uid: u32,
    pub gid: u32,
    pub mode: u32,
    pub children: BTreeMap<String, u64>,
}

pub type Log = Arc<Mutex<Vec<(usize, Value)>>>;

pub struct TreeInner {
    pub tag: usize,
    pub root: u64,
    pub nodes: Mutex<BTreeMap<u64, Node>>,
    pub next: Mutex<u64>,
    pub log: Log,
    pub inited: Mutex<Vec<u64>>,
}

#[derive(Clone)]
pub struct TreeFs(pub Arc<TreeInner>);

impl TreeFs {
    pub fn new(tag: usize, spec: &TreeSpec, log: Log) -> TreeFs {
        let mut nodes = BTreeMap::new();
        let root = spec.root_ino;
        nodes.insert(
            root,
            Node { ino: root, parent: root, dir: true, uid: spec.root_uid, gid: spec.root_gid, mode: libc::S_IFDIR | 0o755, children: BTreeMap::new() },
        );
        let mut next = root + 1;
        fn add(nodes: &mut BTreeMap<u64, Node>, next: &mut u64, parent: u64, specs: &[NodeSpec]) {
            for s in specs {
                let ino = *next;
                *next += 1;
                nodes.insert(
                    ino,
                    Node {
                        ino,
                        parent,
                        dir: s.dir,
                        uid: s.uid,
                        gid: s.gid,
                        mode: if s.dir { libc::S_IFDIR | 0o755 } else { libc::S_IFREG | 0o644 },
                        children: BTreeMap::new(),
                    },
                );
                nodes.get_mut(&parent).unwrap().children.insert(s.name.clone(), ino);
                if s.dir {
                    add(nodes, next, ino, &s.children);
                }
            }
        }
        add(&mut nodes, &mut next, root, &spec.children);
        TreeFs(Arc::new(TreeInner { tag, root, nodes: Mutex::new(nodes), next: Mutex::new(next), log, inited: Mutex::new(vec![]) }))
    }
    /// deep copy of the current tree state with a new tag/log (for restore)
    pub fn snapshot(&self, tag: usize, log: Log) -> TreeFs {
        TreeFs(Arc::new(TreeInner {
            tag,
            root: self.0.root,
            nodes: Mutex::new(self.0.nodes.lock().unwrap().clone()),
            next: Mutex::new(*self.0.next.lock().unwrap()),
            log,
            inited: Mutex::new(self.0.inited.lock().unwrap().clone()),
        }))
    }
    fn rec(&self, m: &str, ctx: Option<&Context>, ino: u64, a: Value) {
        self.0.log.lock().unwrap().push((
            self.0.tag,
            json!({"m": m, "ctx": ctx.map(|c| json!([c.uid, c.gid, c.pid])).unwrap_or(Value::Null), "ino": ino, "a": a}),
        ));
    }
    fn stat_of(&self, n: &Node) -> stat64 {
        let mut st: stat64 = unsafe { std::mem::zeroed() };
        st.st_ino = n.ino;
        st.st_mode = n.mode;
        st.st_nlink = 1;
        st.st_uid = n.uid;
        st.st_gid = n.gid;
        st.st_size = 4096;
        st.st_blksize = 4096;
        st
    }
    fn entry_of(&self, n: &Node) -> Entry {
        Entry {
            inode: n.ino,
            generation: 0,
            attr: self.stat_of(n),
            attr_flags: 0,
            attr_timeout: Duration::from_secs(1),
            entry_timeout: Duration::from_secs(1),
        }
    }
    fn enoent() -> io::Error {
        io::Error::from_raw_os_error(libc::ENOENT)
    }
    fn new_child(&self, ctx: &Context, parent: u64, name: &CStr, mode: u32) -> io::Result<Entry> {
        let name = name.to_string_lossy().to_string();
        let mut nodes = self.0.nodes.lock().unwrap();
        let p = nodes.get(&parent).ok_or_else(Self::enoent)?;
        if !p.dir {
            return Err(io::Error::from_raw_os_error(libc::ENOTDIR));
        }
        if p.children.contains_key(&name) {
            return Err(io::Error::from_raw_os_error(libc::EEXIST));
        }
        let mut next = self.0.next.lock().unwrap();
        let ino = *next;
        *next += 1;
        let n = Node { ino, parent, dir: mode & libc::S_IFMT == libc::S_IFDIR, uid: ctx.uid, gid: ctx.gid, mode, children: BTreeMap::new() };
        let e = self.entry_of(&n);
        nodes.insert(ino, n);
        nodes.get_mut(&parent).unwrap().children.insert(name, ino);
        Ok(e)
    }
}

fn nm(n: &CStr) -> String {
    String::from_utf8_lossy(n.to_bytes()).to_string()
}

impl FileSystem for TreeFs {
    type Inode = u64;
    type Handle = u64;

    fn init(&self, capable: FsOptions) -> io::Result<FsOptions> {
        self.rec("init", None, 0, json!({"capable": capable.bits()}));
        self.0.inited.lock().unwrap().push(capable.bits());
        Ok(capable)
    }
    fn destroy(&self) {
        self.rec("destroy", None, 0, json!({}));
    }
    fn lookup(&self, ctx: &Context, parent: u64, name: &CStr) -> io::Result<Entry> {
        let nodes = self.0.nodes.lock().unwrap();
        let res = (|| {
            let p = nodes.get(&parent).ok_or_else(Self::enoent)?;
            let s = nm(name);
            let ino = if s == "." {
                p.ino
            } else if s == ".." {
                p.parent
            } else {
                *p.children.get(&s).ok_or_else(Self::enoent)?
            };
            Ok(self.entry_of(nodes.get(&ino).unwrap()))
        })();
        let r: Value = match &res {
            Ok(e) => json!({"ino": e.inode, "uid": e.attr.st_uid, "gid": e.attr.st_gid}),
            Err(_) => Value::Null,
        };
        drop(nodes);
        self.rec("lookup", Some(ctx), parent, json!({"name": nm(name), "ret": r}));
        res
    }
    fn forget(&self, ctx: &Context, inode: u64, count: u64) {
        self.rec("forget", Some(ctx), inode, json!({"count": count}));
    }
    fn getattr(&self, ctx: &Context, inode: u64, handle: Option<u64>) -> io::Result<(stat64, Duration)> {
        let nodes = self.0.nodes.lock().unwrap();
        let res = nodes.get(&inode).map(|n| (self.stat_of(n), Duration::from_secs(1))).ok_or_else(Self::enoent);
        let r = res.as_ref().ok().map(|(st, _)| json!({"uid": st.st_uid, "gid": st.st_gid}));
        drop(nodes);
        self.rec("getattr", Some(ctx), inode, json!({"fh": handle, "ret": r}));
        res
    }
    fn setattr(&self, ctx: &Context, inode: u64, attr: stat64, handle: Option<u64>, valid: SetattrValid) -> io::Result<(stat64, Duration)> {
        let mut nodes = self.0.nodes.lock().unwrap();
        let res = match nodes.get_mut(&inode) {
            Some(n) => {
                if valid.contains(SetattrValid::UID) {
                    n.uid = attr.st_uid;
                }
                if valid.contains(SetattrValid::GID) {
                    n.gid = attr.st_gid;
                }
                let n = n.clone();
                Ok((self.stat_of(&n), Duration::from_secs(1)))
            }
            None => Err(Self::enoent()),
        };
        let r = res.as_ref().ok().map(|(st, _)| json!({"uid": st.st_uid, "gid": st.st_gid}));
        drop(nodes);
        self.rec("setattr", Some(ctx), inode, json!({"fh": handle, "valid": valid.bits(), "uid": attr.st_uid, "gid": attr.st_gid, "ret": r}));
        res
    }
    fn readlink(&self, ctx: &Context, inode: u64) -> io::Result<Vec<u8>> {
        self.rec("readlink", Some(ctx), inode, json!({}));
        Ok(b"t".to_vec())
    }
    fn symlink(&self, ctx: &Context, linkname: &CStr, parent: u64, name: &CStr) -> io::Result<Entry> {
        let res = self.new_child(ctx, parent, name, libc::S_IFLNK | 0o777);
        let r = res.as_ref().ok().map(|e| json!({"ino": e.inode, "uid": e.attr.st_uid, "gid": e.attr.st_gid}));
        self.rec("symlink", Some(ctx), parent, json!({"name": nm(name), "linkname": nm(linkname), "ret": r}));
        res
    }
    fn mknod(&self, ctx: &Context, parent: u64, name: &CStr, mode: u32, rdev: u32, umask: u32) -> io::Result<Entry> {
        let res = self.new_child(ctx, parent, name, libc::S_IFREG | 0o644);
        let r = res.as_ref().ok().map(|e| json!({"ino": e.inode, "uid": e.attr.st_uid, "gid": e.attr.st_gid}));
        self.rec("mknod", Some(ctx), parent, json!({"name": nm(name), "mode": mode, "rdev": rdev, "umask": umask, "ret": r}));
        res
    }
    fn mkdir(&self, ctx: &Context, parent: u64, name: &CStr, mode: u32, umask: u32) -> io::Result<Entry> {
        let res = self.new_child(ctx, parent, name, libc::S_IFDIR | 0o755);
        let r = res.as_ref().ok().map(|e| json!({"ino": e.inode, "uid": e.attr.st_uid, "gid": e.attr.st_gid}));
        self.rec("mkdir", Some(ctx), parent, json!({"name": nm(name), "mode": mode, "umask": umask, "ret": r}));
        res
    }
    fn unlink(&self, ctx: &Context, parent: u64, name: &CStr) -> io::Result<()> {
        self.rec("unlink", Some(ctx), parent, json!({"name": nm(name)}));
        let mut nodes = self.0.nodes.lock().unwrap();
        let p = nodes.get_mut(&parent).ok_or_else(Self::enoent)?;
        p.children.remove(&nm(name)).map(|_| ()).ok_or_else(Self::enoent)
    }
    fn rmdir(&self, ctx: &Context, parent: u64, name: &CStr) -> io::Result<()> {
        self.rec("rmdir", Some(ctx), parent, json!({"name": nm(name)}));
        let mut nodes = self.0.nodes.lock().unwrap();
        let p = nodes.get_mut(&parent).ok_or_else(Self::enoent)?;
        p.children.remove(&nm(name)).map(|_| ()).ok_or_else(Self::enoent)
    }
    fn rename(&self, ctx: &Context, olddir: u64, oldname: &CStr, newdir: u64, newname: &CStr, flags: u32) -> io::Result<()> {
        self.rec("rename", Some(ctx), olddir, json!({"oldname": nm(oldname), "newdir": newdir, "newname": nm(newname), "flags": flags}));
        let mut nodes = self.0.nodes.lock().unwrap();
        if !nodes.contains_key(&newdir) {
            return Err(Self::enoent());
        }
        let p = nodes.get_mut(&olddir).ok_or_else(Self::enoent)?;
        let ino = p.children.remove(&nm(oldname)).ok_or_else(Self::enoent)?;
        nodes.get_mut(&newdir).unwrap().children.insert(nm(newname), ino);
        Ok(())
    }
    fn link(&self, ctx: &Context, inode: u64, newparent: u64, newname: &CStr) -> io::Result<Entry> {
        let mut nodes = self.0.nodes.lock().unwrap();
        let res = (|| {
            let n = nodes.get(&inode).ok_or_else(Self::enoent)?.clone();
            let p = nodes.get_mut(&newparent).ok_or_else(Self::enoent)?;
            p.children.insert(nm(newname), inode);
            Ok(self.entry_of(&n))
        })();
        let r = res.as_ref().ok().map(|e: &Entry| json!({"ino": e.inode, "uid": e.attr.st_uid, "gid": e.attr.st_gid}));
        drop(nodes);
        self.rec("link", Some(ctx), newparent, json!({"oldino": inode, "name": nm(newname), "ret": r}));
        res
    }
    fn open(&self, ctx: &Context, inode: u64, flags: u32, fuse_flags: u32) -> io::Result<(Option<u64>, OpenOptions, Option<u32>)> {
        self.rec("open", Some(ctx), inode, json!({"flags": flags, "fuse_flags": fuse_flags}));
        Ok((Some(1000 + inode), OpenOptions::empty(), None))
    }
    fn create(&self, ctx: &Context, parent: u64, name: &CStr, args: CreateIn) -> io::Result<(Entry, Option<u64>, OpenOptions, Option<u32>)> {
        let res = self.new_child(ctx, parent, name, libc::S_IFREG | 0o644);
        let r = res.as_ref().ok().map(|e| json!({"ino": e.inode, "uid": e.attr.st_uid, "gid": e.attr.st_gid}));
        self.rec("create", Some(ctx), parent, json!({"name": nm(name), "flags": args.flags, "mode": args.mode, "ret": r}));
        res.map(|e| (e, Some(1000 + e.inode), OpenOptions::empty(), None))
    }
    fn read(&self, ctx: &Context, inode: u64, handle: u64, w: &mut dyn ZeroCopyWriter, size: u32, offset: u64, _lo: Option<u64>, _flags: u32) -> io::Result<usize> {
        self.rec("read", Some(ctx), inode, json!({"fh": handle, "size": size, "offset": offset}));
        let d = b"data";
        let n = d.len().min(size as usize);
        io::Write::write_all(w, &d[..n])?;
        Ok(n)
    }
    fn write(&self, ctx: &Context, inode: u64, handle: u64, _r: &mut dyn ZeroCopyReader, size: u32, offset: u64, _lo: Option<u64>, _dw: bool, _flags: u32, _ff: u32) -> io::Result<usize> {
        self.rec("write", Some(ctx), inode, json!({"fh": handle, "size": size, "offset": offset}));
        Ok(size as usize)
    }
    fn flush(&self, ctx: &Context, inode: u64, handle: u64, lock_owner: u64) -> io::Result<()> {
        self.rec("flush", Some(ctx), inode, json!({"fh": handle, "lock_owner": lock_owner}));
        Ok(())
    }
    fn fsync(&self, ctx: &Context, inode: u64, datasync: bool, handle: u64) -> io::Result<()> {
        self.rec("fsync", Some(ctx), inode, json!({"fh": handle, "datasync": datasync}));
        Ok(())
    }
    fn fallocate(&self, ctx: &Context, inode: u64, handle: u64, mode: u32, offset: u64, length: u64) -> io::Result<()> {
        self.rec("fallocate", Some(ctx), inode, json!({"fh": handle, "mode": mode, "offset": offset, "length": length}));
        Ok(())
    }
    fn release(&self, ctx: &Context, inode: u64, flags: u32, handle: u64, _flush: bool, _fr: bool, _lo: Option<u64>) -> io::Result<()> {
        self.rec("release", Some(ctx), inode, json!({"fh": handle, "flags": flags}));
        Ok(())
    }
    fn statfs(&self, ctx: &Context, inode: u64) -> io::Result<statvfs64> {
        self.rec("statfs", Some(ctx), inode, json!({}));
        let mut st: statvfs64 = unsafe { std::mem::zeroed() };
        st.f_bsize = 4096;
        st.f_namemax = 255;
        st.f_blocks = self.0.tag as u64 + 100;
        Ok(st)
    }
    fn setxattr(&self, ctx: &Context, inode: u64, name: &CStr, _value: &[u8], flags: u32) -> io::Result<()> {
        self.rec("setxattr", Some(ctx), inode, json!({"name": nm(name), "flags": flags}));
        Ok(())
    }
    fn getxattr(&self, ctx: &Context, inode: u64, name: &CStr, size: u32) -> io::Result<GetxattrReply> {
        self.rec("getxattr", Some(ctx), inode, json!({"name": nm(name), "size": size}));
        Ok(GetxattrReply::Count(3))
    }
    fn listxattr(&self, ctx: &Context, inode: u64, size: u32) -> io::Result<ListxattrReply> {
        self.rec("listxattr", Some(ctx), inode, json!({"size": size}));
        Ok(ListxattrReply::Count(0))
    }
    fn removexattr(&self, ctx: &Context, inode: u64, name: &CStr) -> io::Result<()> {
        self.rec("removexattr", Some(ctx), inode, json!({"name": nm(name)}));
        Ok(())
    }
    fn opendir(&self, ctx: &Context, inode: u64, flags: u32) -> io::Result<(Option<u64>, OpenOptions)> {
        self.rec("opendir", Some(ctx), inode, json!({"flags": flags}));
        Ok((Some(2000 + inode), OpenOptions::empty()))
    }
    fn readdir(&self, ctx: &Context, inode: u64, handle: u64, size: u32, offset: u64, add_entry: &mut dyn FnMut(DirEntry) -> io::Result<usize>) -> io::Result<()> {
        self.rec("readdir", Some(ctx), inode, json!({"fh": handle, "size": size, "offset": offset}));
        let nodes = self.0.nodes.lock().unwrap();
        let n = nodes.get(&inode).ok_or_else(Self::enoent)?;
        for (i, (name, ino)) in n.children.iter().enumerate().skip(offset as usize) {
            let t = if nodes.get(ino).map(|c| c.dir).unwrap_or(false) { libc::DT_DIR } else { libc::DT_REG } as u32;
            match add_entry(DirEntry { ino: *ino, offset: i as u64 + 1, type_: t, name: name.as_bytes() }) {
                Ok(0) => break,
                Ok(_) => {}
                Err(e) => return Err(e),
            }
        }
        Ok(())
    }
    fn readdirplus(&self, ctx: &Context, inode: u64, handle: u64, size: u32, offset: u64, add_entry: &mut dyn FnMut(DirEntry, Entry) -> io::Result<usize>) -> io::Result<()> {
        self.rec("readdirplus", Some(ctx), inode, json!({"fh": handle, "size": size, "offset": offset}));
        let nodes = self.0.nodes.lock().unwrap();
        let n = nodes.get(&inode).ok_or_else(Self::enoent)?;
        for (i, (name, ino)) in n.children.iter().enumerate().skip(offset as usize) {
            let c = match nodes.get(ino) {
                Some(c) => c,
                None => continue,
            };
            let t = if c.dir { libc::DT_DIR } else { libc::DT_REG } as u32;
            match add_entry(DirEntry { ino: *ino, offset: i as u64 + 1, type_: t, name: name.as_bytes() }, self.entry_of(c)) {
                Ok(0) => break,
                Ok(_) => {}
                Err(e) => return Err(e),
            }
        }
        Ok(())
    }
    fn fsyncdir(&self, ctx: &Context, inode: u64, datasync: bool, handle: u64) -> io::Result<()> {
        self.rec("fsyncdir", Some(ctx), inode, json!({"fh": handle, "datasync": datasync}));
        Ok(())
    }
    fn releasedir(&self, ctx: &Context, inode: u64, flags: u32, handle: u64) -> io::Result<()> {
        self.rec("releasedir", Some(ctx), inode, json!({"fh": handle, "flags": flags}));
        Ok(())
    }
    fn access(&self, ctx: &Context, inode: u64, mask: u32) -> io::Result<()> {
        self.rec("access", Some(ctx), inode, json!({"mask": mask}));
        Ok(())
    }
    fn lseek(&self, ctx: &Context, inode: u64, handle: u64, offset: u64, whence: u32) -> io::Result<u64> {
        self.rec("lseek", Some(ctx), inode, json!({"fh": handle, "offset": offset, "whence": whence}));
        Ok(offset)
    }
    fn bmap(&self, ctx: &Context, inode: u64, block: u64, blocksize: u32) -> io::Result<u64> {
        self.rec("bmap", Some(ctx), inode, json!({"block": block, "blocksize": blocksize}));
        Ok(block)
    }
    fn poll(&self, ctx: &Context, inode: u64, handle: u64, kh: u64, flags: u32, events: u32) -> io::Result<u32> {
        self.rec("poll", Some(ctx), inode, json!({"fh": handle, "kh": kh, "flags": flags, "events": events}));
        Ok(0)
    }
    fn getlk(&self, ctx: &Context, inode: u64, handle: u64, owner: u64, lock: fuse_backend_rs::api::filesystem::FileLock, flags: u32) -> io::Result<fuse_backend_rs::api::filesystem::FileLock> {
        self.rec("getlk", Some(ctx), inode, json!({"fh": handle, "owner": owner, "flags": flags}));
        Ok(lock)
    }
    fn setlk(&self, ctx: &Context, inode: u64, handle: u64, owner: u64, _lock: fuse_backend_rs::api::filesystem::FileLock, flags: u32) -> io::Result<()> {
        self.rec("setlk", Some(ctx), inode, json!({"fh": handle, "owner": owner, "flags": flags}));
        Ok(())
    }
    fn setlkw(&self, ctx: &Context, inode: u64, handle: u64, owner: u64, _lock: fuse_backend_rs::api::filesystem::FileLock, flags: u32) -> io::Result<()> {
        self.rec("setlkw", Some(ctx), inode, json!({"fh": handle, "owner": owner, "flags": flags}));
        Ok(())
    }
}

impl BackendFileSystem for TreeFs {
    fn mount(&self) -> io::Result<(Entry, u64)> {
        let nodes = self.0.nodes.lock().unwrap();
        let e = self.entry_of(nodes.get(&self.0.root).unwrap());
        Ok((e, 1 << 40))
    }
    fn as_any(&self) -> &dyn Any {
        self
    }
}

// ---------------------------------------------------------------- client

#[derive(Clone, Debug, Default)]
pub struct Rep {
    pub error: i32,
    pub body: Vec<u8>,
    pub nreplies: usize,
}

#[derive(Clone, Debug, Default, PartialEq)]
pub struct EntryRep {
    pub nodeid: u64,
    pub ino: u64,
    pub mode: u32,
    pub uid: u32,
    pub gid: u32,
}

impl Rep {
    pub fn entry(&self, at: usize) -> Option<EntryRep> {
        if self.error != 0 || self.body.len() < at + ssize("fuse_entry_out") {
            return None;
        }
        Some(EntryRep {
            nodeid: get(&self.body, at, "fuse_entry_out", "nodeid"),
            ino: get(&self.body, at, "fuse_entry_out", "attr.ino"),
            mode: get(&self.body, at, "fuse_entry_out", "attr.mode") as u32,
            uid: get(&self.body, at, "fuse_entry_out", "attr.uid") as u32,
            gid: get(&self.body, at, "fuse_entry_out", "attr.gid") as u32,
        })
    }
    pub fn attr(&self) -> Option<EntryRep> {
        if self.error != 0 || self.body.len() < ssize("fuse_attr_out") {
            return None;
        }
        Some(EntryRep {
            nodeid: 0,
            ino: get(&self.body, 0, "fuse_attr_out", "attr.ino"),
            mode: get(&self.body, 0, "fuse_attr_out", "attr.mode") as u32,
            uid: get(&self.body, 0, "fuse_attr_out", "attr.uid") as u32,
            gid: get(&self.body, 0, "fuse_attr_out", "attr.gid") as u32,
        })
    }
    /// parse a READDIR / READDIRPLUS payload: (entry?, ino, off, type, name)
    pub fn dirents(&self, plus: bool) -> Vec<(Option<EntryRep>, u64, u64, u32, Vec<u8>)> {
        let mut out = vec![];
        if self.error != 0 {
            return out;
        }
        let esz = if plus { ssize("fuse_entry_out") } else { 0 };
        let dsz = ssize("fuse_dirent");
        let b = &self.body;
        let mut pos = 0;
        while pos + esz + dsz <= b.len() {
            let e = if plus { self.entry(pos) } else { None };
            let dp = pos + esz;
            let ino = get(b, dp, "fuse_dirent", "ino");
            let off = get(b, dp, "fuse_dirent", "off");
            let namelen = get(b, dp, "fuse_dirent", "namelen") as usize;
            let t = get(b, dp, "fuse_dirent", "type") as u32;
            if dp + dsz + namelen > b.len() {
                break;
            }
            out.push((e, ino, off, t, b[dp + dsz..dp + dsz + namelen].to_vec()));
            pos += esz + ((dsz + namelen + 7) & !7);
        }
        out
    }
}

pub fn mkreq(op: &str, nodeid: u64, uid: u32, gid: u32, fields: &[(&str, u64)], names: &[&[u8]], payload: &[u8]) -> Req {
    Req {
        op: op.to_string(),
        hdr: Hdr { opcode: 0, unique: 0x1234, nodeid, uid, gid, pid: 77 },
        fields: fields.iter().map(|(k, v)| (k.to_string(), *v)).collect(),
        names: names.iter().map(|n| NameB(n.to_vec())).collect(),
        payload: payload.to_vec(),
        items: vec![],
    }
}

/// Send one request through a server, return the decoded (single) reply.
pub fn call<F: FileSystem + Sync>(srv: &Server<F>, req: &Req) -> Rep {
    let bytes = req.encode();
    let room = 16 + req.reply_room() + 256;
    let d = transport::serve_fusedev(srv, &bytes, room, true);
    let mut r = Rep { error: i32::MIN, body: vec![], nreplies: d.replies.len() };
    if let Some(m) = d.replies.first() {
        if let Some(p) = codec::parse_reply(m) {
            r.error = p.error;
            r.body = p.body;
        }
    }
    r
}

pub struct VfsWorld {
    pub vfs: Arc<Vfs>,
    pub srv: Server<Arc<Vfs>>,
    pub log: Log,
}

impl VfsWorld {
    pub fn new(opts: VfsOptions) -> VfsWorld {
        Self::new_with(opts, false)
    }
    /// `evict`: Vfs::set_remove_pseudo_root() — umount also drops the pseudo directories it leaves empty
    pub fn new_with(opts: VfsOptions, evict: bool) -> VfsWorld {
        let mut v = Vfs::new(opts);
        if evict {
            v.set_remove_pseudo_root();
        }
        let vfs = Arc::new(v);
        VfsWorld { srv: Server::new(vfs.clone()), vfs, log: Arc::new(Mutex::new(vec![])) }
    }
    pub fn take_log(&self) -> Vec<(usize, Value)> {
        std::mem::take(&mut *self.log.lock().unwrap())
    }
    pub fn call(&self, req: &Req) -> (Rep, Vec<(usize, Value)>) {
        self.take_log();
        let r = call(&self.srv, req);
        (r, self.take_log())
    }
    pub fn init(&self, flags: u64) -> Rep {
        let req = mkreq("INIT", 0, 0, 0, &[("major", 7), ("minor", 38), ("max_readahead", 65536), ("flags", (flags & 0xffff_ffff) | codec::c("FUSE_INIT_EXT")), ("flags2", flags >> 32)], &[], &[]);
        self.call(&req).0
    }
}
