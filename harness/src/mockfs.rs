//! Scripted, logging FileSystem used behind Server (C01, C02, C03, C12, C17, C20).
use fuse_backend_rs::abi::fuse_abi::{stat64, statvfs64, CreateIn, FsOptions, OpenOptions, SetattrValid};
use fuse_backend_rs::abi::virtio_fs::RemovemappingOne;
use fuse_backend_rs::api::filesystem::{
    Context, DirEntry, Entry, FileLock, FileSystem, GetxattrReply, IoctlData, ListxattrReply, ZeroCopyReader, ZeroCopyWriter,
};
use fuse_backend_rs::transport::FsCacheReqHandler;
use serde::{Deserialize, Serialize};
use serde_json::{json, Value};
use std::ffi::CStr;
use std::io;
use std::os::unix::io::FromRawFd;
use std::sync::Mutex;
use std::time::Duration;

use crate::engine::hexbytes;

#[derive(Clone, Debug, Default, Serialize, Deserialize, PartialEq)]
pub struct StatSpec {
    pub ino: u64,
    pub mode: u32,
    pub nlink: u64,
    pub uid: u32,
    pub gid: u32,
    pub rdev: u64,
    pub size: i64,
    pub blksize: i64,
    pub blocks: i64,
    pub atime: i64,
    pub atime_nsec: i64,
    pub mtime: i64,
    pub mtime_nsec: i64,
    pub ctime: i64,
    pub ctime_nsec: i64,
}
impl StatSpec {
    pub fn to_stat(&self) -> stat64 {
        let mut st: stat64 = unsafe { std::mem::zeroed() };
        st.st_ino = self.ino;
        st.st_mode = self.mode;
        st.st_nlink = self.nlink;
        st.st_uid = self.uid;
        st.st_gid = self.gid;
        st.st_rdev = self.rdev;
        st.st_size = self.size;
        st.st_blksize = self.blksize;
        st.st_blocks = self.blocks;
        st.st_atime = self.atime;
        st.st_atime_nsec = self.atime_nsec;
        st.st_mtime = self.mtime;
        st.st_mtime_nsec = self.mtime_nsec;
        st.st_ctime = self.ctime;
        st.st_ctime_nsec = self.ctime_nsec;
        st
    }
    pub fn from_stat(st: &stat64) -> StatSpec {
        StatSpec {
            ino: st.st_ino,
            mode: st.st_mode,
            nlink: st.st_nlink,
            uid: st.st_uid,
            gid: st.st_gid,
            rdev: st.st_rdev,
            size: st.st_size,
            blksize: st.st_blksize,
            blocks: st.st_blocks,
            atime: st.st_atime,
            atime_nsec: st.st_atime_nsec,
            mtime: st.st_mtime,
            mtime_nsec: st.st_mtime_nsec,
            ctime: st.st_ctime,
            ctime_nsec: st.st_ctime_nsec,
        }
    }
}

#[derive(Clone, Debug, Default, Serialize, Deserialize, PartialEq)]
pub struct EntrySpec {
    pub inode: u64,
    pub generation: u64,
    pub attr: StatSpec,
    pub attr_flags: u32,
    pub attr_secs: u64,
    pub attr_nsec: u32,
    pub entry_secs: u64,
    pub entry_nsec: u32,
}
impl EntrySpec {
    pub fn to_entry(&self) -> Entry {
        Entry {
            inode: self.inode,
            generation: self.generation,
            attr: self.attr.to_stat(),
            attr_flags: self.attr_flags,
            attr_timeout: Duration::new(self.attr_secs, self.attr_nsec),
            entry_timeout: Duration::new(self.entry_secs, self.entry_nsec),
        }
    }
}

#[derive(Clone, Debug, Default, Serialize, Deserialize, PartialEq)]
pub struct DirentSpec {
    pub ino: u64,
    pub offset: u64,
    pub type_: u32,
    #[serde(with = "hexbytes")]
    pub name: Vec<u8>,
    pub entry: EntrySpec,
}

#[derive(Clone, Debug, Default, Serialize, Deserialize, PartialEq)]
pub struct StatfsSpec {
    pub blocks: u64,
    pub bfree: u64,
    pub bavail: u64,
    pub files: u64,
    pub ffree: u64,
    pub bsize: u64,
    pub namemax: u64,
    pub frsize: u64,
}

#[derive(Clone, Debug, Serialize, Deserialize, PartialEq)]
pub enum ErrSpec {
    Os(i32),
    /// index into KINDS
    Kind(u8),
}

pub const KINDS: &[io::ErrorKind] = &[
    io::ErrorKind::NotFound,
    io::ErrorKind::PermissionDenied,
    io::ErrorKind::ConnectionRefused,
    io::ErrorKind::ConnectionReset,
    io::ErrorKind::ConnectionAborted,
    io::ErrorKind::NotConnected,
    io::ErrorKind::AddrInUse,
    io::ErrorKind::AddrNotAvailable,
    io::ErrorKind::BrokenPipe,
    io::ErrorKind::AlreadyExists,
    io::ErrorKind::WouldBlock,
    io::ErrorKind::InvalidInput,
    io::ErrorKind::InvalidData,
    io::ErrorKind::TimedOut,
    io::ErrorKind::WriteZero,
    io::ErrorKind::Interrupted,
    io::ErrorKind::Unsupported,
    io::ErrorKind::UnexpectedEof,
    io::ErrorKind::OutOfMemory,
    io::ErrorKind::Other,
];

impl ErrSpec {
    pub fn to_err(&self) -> io::Error {
        match self {
            ErrSpec::Os(e) => io::Error::from_raw_os_error(*e),
            ErrSpec::Kind(k) => io::Error::new(KINDS[*k as usize % KINDS.len()], "scripted"),
        }
    }
}

#[derive(Clone, Debug, Serialize, Deserialize, PartialEq)]
pub enum ReadMode {
    Write,
    WriteFrom,
    Both,
    /// write part of the data, then fail (an unsound-but-possible fs; only used where stated)
    PartialThenErr,
}

#[derive(Clone, Debug, Serialize, Deserialize, PartialEq)]
pub enum MockRes {
    /// plausible default Ok value for whatever method is called
    Default,
    Err(ErrSpec),
    Entry(EntrySpec),
    Attr(StatSpec, u64, u32),
    Open { fh: Option<u64>, opts: u32, passthrough: Option<u32> },
    Create { entry: EntrySpec, fh: Option<u64>, opts: u32, passthrough: Option<u32> },
    Data(#[serde(with = "hexbytes")] Vec<u8>),
    Read { #[serde(with = "hexbytes")] data: Vec<u8>, mode: ReadMode },
    Count(u32),
    Written(u32),
    Lock { start: u64, end: u64, type_: u32, pid: u32 },
    Statfs(StatfsSpec),
    U64(u64),
    U32(u32),
    Ioctl { result: i32, #[serde(with = "hexbytes")] data: Vec<u8> },
    Dirents(Vec<DirentSpec>),
    /// the directory read hands over these entries and THEN fails (host getdents failing
    /// mid-stream); if the reply area fills up first the call ends normally
    DirentsThenErr(Vec<DirentSpec>, ErrSpec),
    /// FsOptions bits returned from init
    Init(u64),
}

/// marker in `dir_returns`: the directory read returned its scripted error after the entries
pub const DIR_FAILED: i64 = -2;

pub struct MockFs {
    pub res: MockRes,
    pub log: Mutex<Vec<Value>>,
    /// what readdir's add_entry returned, per entry
    pub dir_returns: Mutex<Vec<i64>>,
    /// bytes actually produced by read
    pub produced: Mutex<Vec<u8>>,
    /// log id_remap calls too
    pub log_remap: bool,
    /// when set, write() pulls the payload with read_to (file) instead of Read::read
    pub write_via_file: bool,
}

pub fn hex(b: &[u8]) -> String {
    let mut s = String::with_capacity(b.len() * 2);
    for x in b {
        s.push_str(&format!("{:02x}", x));
    }
    s
}

fn cx(ctx: &Context) -> Value {
    json!([ctx.uid, ctx.gid, ctx.pid])
}

pub fn memfd_with(data: &[u8]) -> std::fs::File {
    let fd = unsafe { libc::memfd_create(b"fbv\0".as_ptr() as *const libc::c_char, libc::MFD_CLOEXEC) };
    assert!(fd >= 0, "memfd_create");
    let f = unsafe { std::fs::File::from_raw_fd(fd) };
    use std::os::unix::fs::FileExt;
    if !data.is_empty() {
        f.write_all_at(data, 0).unwrap();
    }
    f
}

impl MockFs {
    pub fn new(res: MockRes) -> MockFs {
        MockFs {
            res,
            log: Mutex::new(vec![]),
            dir_returns: Mutex::new(vec![]),
            produced: Mutex::new(vec![]),
            log_remap: false,
            write_via_file: false,
        }
    }
    fn rec(&self, m: &str, ctx: Option<&Context>, args: Value) {
        self.log.lock().unwrap().push(json!({"m": m, "ctx": ctx.map(cx).unwrap_or(Value::Null), "a": args}));
    }
    pub fn calls(&self) -> Vec<Value> {
        self.log.lock().unwrap().clone()
    }
    fn err(&self) -> Option<io::Error> {
        if let MockRes::Err(e) = &self.res {
            Some(e.to_err())
        } else {
            None
        }
    }
    fn entry(&self) -> io::Result<Entry> {
        if let Some(e) = self.err() {
            return Err(e);
        }
        match &self.res {
            MockRes::Entry(e) => Ok(e.to_entry()),
            MockRes::Create { entry, .. } => Ok(entry.to_entry()),
            _ => Ok(default_entry()),
        }
    }
    fn unit(&self) -> io::Result<()> {
        match self.err() {
            Some(e) => Err(e),
            None => Ok(()),
        }
    }
    fn attr(&self) -> io::Result<(stat64, Duration)> {
        if let Some(e) = self.err() {
            return Err(e);
        }
        match &self.res {
            MockRes::Attr(st, s, n) => Ok((st.to_stat(), Duration::new(*s, *n))),
            _ => Ok((default_entry().attr, Duration::from_secs(1))),
        }
    }
}

pub fn default_entry() -> Entry {
    let mut st: stat64 = unsafe { std::mem::zeroed() };
    st.st_ino = 2;
    st.st_mode = libc::S_IFREG | 0o644;
    st.st_nlink = 1;
    Entry {
        inode: 2,
        generation: 0,
        attr: st,
        attr_flags: 0,
        attr_timeout: Duration::from_secs(1),
        entry_timeout: Duration::from_secs(1),
    }
}

fn name(n: &CStr) -> String {
    hex(n.to_bytes())
}

impl FileSystem for MockFs {
    type Inode = u64;
    type Handle = u64;

    fn init(&self, capable: FsOptions) -> io::Result<FsOptions> {
        self.rec("init", None, json!({"capable": capable.bits()}));
        if let Some(e) = self.err() {
            return Err(e);
        }
        match &self.res {
            MockRes::Init(bits) => Ok(unsafe { FsOptions::from_bits_unchecked(*bits) }),
            _ => Ok(FsOptions::empty()),
        }
    }
    fn destroy(&self) {
        self.rec("destroy", None, json!({}));
    }
    fn lookup(&self, ctx: &Context, parent: u64, n: &CStr) -> io::Result<Entry> {
        self.rec("lookup", Some(ctx), json!({"nodeid": parent, "name": name(n)}));
        self.entry()
    }
    fn forget(&self, ctx: &Context, inode: u64, count: u64) {
        self.rec("forget", Some(ctx), json!({"nodeid": inode, "nlookup": count}));
    }
    fn batch_forget(&self, ctx: &Context, requests: Vec<(u64, u64)>) {
        let l: Vec<Value> = requests.iter().map(|(a, b)| json!([a, b])).collect();
        self.rec("batch_forget", Some(ctx), json!({"items": l}));
    }
    fn getattr(&self, ctx: &Context, inode: u64, handle: Option<u64>) -> io::Result<(stat64, Duration)> {
        self.rec("getattr", Some(ctx), json!({"nodeid": inode, "fh": handle}));
        self.attr()
    }
    fn setattr(&self, ctx: &Context, inode: u64, attr: stat64, handle: Option<u64>, valid: SetattrValid) -> io::Result<(stat64, Duration)> {
        self.rec(
            "setattr",
            Some(ctx),
            json!({"nodeid": inode, "fh": handle, "valid": valid.bits(), "st": serde_json::to_value(StatSpec::from_stat(&attr)).unwrap()}),
        );
        self.attr()
    }
    fn readlink(&self, ctx: &Context, inode: u64) -> io::Result<Vec<u8>> {
        self.rec("readlink", Some(ctx), json!({"nodeid": inode}));
        if let Some(e) = self.err() {
            return Err(e);
        }
        match &self.res {
            MockRes::Data(d) => Ok(d[..d.len().min(4095)].to_vec()),
            _ => Ok(b"target".to_vec()),
        }
    }
    fn symlink(&self, ctx: &Context, linkname: &CStr, parent: u64, n: &CStr) -> io::Result<Entry> {
        self.rec("symlink", Some(ctx), json!({"nodeid": parent, "name": name(n), "linkname": name(linkname)}));
        self.entry()
    }
    fn mknod(&self, ctx: &Context, inode: u64, n: &CStr, mode: u32, rdev: u32, umask: u32) -> io::Result<Entry> {
        self.rec("mknod", Some(ctx), json!({"nodeid": inode, "name": name(n), "mode": mode, "rdev": rdev, "umask": umask}));
        self.entry()
    }
    fn mkdir(&self, ctx: &Context, parent: u64, n: &CStr, mode: u32, umask: u32) -> io::Result<Entry> {
        self.rec("mkdir", Some(ctx), json!({"nodeid": parent, "name": name(n), "mode": mode, "umask": umask}));
        self.entry()
    }
    fn unlink(&self, ctx: &Context, parent: u64, n: &CStr) -> io::Result<()> {
        self.rec("unlink", Some(ctx), json!({"nodeid": parent, "name": name(n)}));
        self.unit()
    }
    fn rmdir(&self, ctx: &Context, parent: u64, n: &CStr) -> io::Result<()> {
        self.rec("rmdir", Some(ctx), json!({"nodeid": parent, "name": name(n)}));
        self.unit()
    }
    fn rename(&self, ctx: &Context, olddir: u64, oldname: &CStr, newdir: u64, newname: &CStr, flags: u32) -> io::Result<()> {
        self.rec(
            "rename",
            Some(ctx),
            json!({"nodeid": olddir, "oldname": name(oldname), "newdir": newdir, "newname": name(newname), "flags": flags}),
        );
        self.unit()
    }
    fn link(&self, ctx: &Context, inode: u64, newparent: u64, newname: &CStr) -> io::Result<Entry> {
        self.rec("link", Some(ctx), json!({"oldnodeid": inode, "nodeid": newparent, "name": name(newname)}));
        self.entry()
    }
    fn open(&self, ctx: &Context, inode: u64, flags: u32, fuse_flags: u32) -> io::Result<(Option<u64>, OpenOptions, Option<u32>)> {
        self.rec("open", Some(ctx), json!({"nodeid": inode, "flags": flags, "fuse_flags": fuse_flags}));
        if let Some(e) = self.err() {
            return Err(e);
        }
        match &self.res {
            MockRes::Open { fh, opts, passthrough } => Ok((*fh, unsafe { OpenOptions::from_bits_unchecked(*opts) }, *passthrough)),
            _ => Ok((Some(7), OpenOptions::empty(), None)),
        }
    }
    fn create(&self, ctx: &Context, parent: u64, n: &CStr, args: CreateIn) -> io::Result<(Entry, Option<u64>, OpenOptions, Option<u32>)> {
        self.rec(
            "create",
            Some(ctx),
            json!({"nodeid": parent, "name": name(n), "flags": args.flags, "mode": args.mode, "umask": args.umask, "fuse_flags": args.fuse_flags}),
        );
        if let Some(e) = self.err() {
            return Err(e);
        }
        match &self.res {
            MockRes::Create { entry, fh, opts, passthrough } => {
                Ok((entry.to_entry(), *fh, unsafe { OpenOptions::from_bits_unchecked(*opts) }, *passthrough))
            }
            _ => Ok((default_entry(), Some(7), OpenOptions::empty(), None)),
        }
    }
    fn read(
        &self,
        ctx: &Context,
        inode: u64,
        handle: u64,
        w: &mut dyn ZeroCopyWriter,
        size: u32,
        offset: u64,
        lock_owner: Option<u64>,
        flags: u32,
    ) -> io::Result<usize> {
        self.rec(
            "read",
            Some(ctx),
            json!({"nodeid": inode, "fh": handle, "size": size, "offset": offset, "lock_owner": lock_owner, "flags": flags}),
        );
        if let Some(e) = self.err() {
            return Err(e);
        }
        let (data, mode) = match &self.res {
            MockRes::Read { data, mode } => (data.clone(), mode.clone()),
            MockRes::Data(d) => (d.clone(), ReadMode::Write),
            _ => (b"hello".to_vec(), ReadMode::Write),
        };
        // a sound fs: never more than asked, never more than there is room for
        let n = data.len().min(size as usize).min(w.available_bytes());
        let data = &data[..n];
        let mut done = 0usize;
        match mode {
            ReadMode::Write => {
                io::Write::write_all(w, data)?;
                done = n;
            }
            ReadMode::WriteFrom => {
                let mut f = memfd_with(data);
                while done < n {
                    let k = w.write_from(&mut f, n - done, done as u64)?;
                    if k == 0 {
                        break;
                    }
                    done += k;
                }
            }
            ReadMode::Both => {
                let half = n / 2;
                io::Write::write_all(w, &data[..half])?;
                done = half;
                let mut f = memfd_with(data);
                while done < n {
                    let k = w.write_from(&mut f, n - done, done as u64)?;
                    if k == 0 {
                        break;
                    }
                    done += k;
                }
            }
            ReadMode::PartialThenErr => {
                let half = n / 2;
                io::Write::write_all(w, &data[..half])?;
                self.produced.lock().unwrap().extend_from_slice(&data[..half]);
                return Err(io::Error::from_raw_os_error(libc::EIO));
            }
        }
        self.produced.lock().unwrap().extend_from_slice(&data[..done]);
        Ok(done)
    }
    fn write(
        &self,
        ctx: &Context,
        inode: u64,
        handle: u64,
        r: &mut dyn ZeroCopyReader,
        size: u32,
        offset: u64,
        lock_owner: Option<u64>,
        delayed_write: bool,
        flags: u32,
        fuse_flags: u32,
    ) -> io::Result<usize> {
        // pull exactly what the transport has for us, up to size
        let mut payload = vec![];
        if self.write_via_file {
            let mut f = memfd_with(&[]);
            let mut off = 0u64;
            loop {
                let want = (size as usize).saturating_sub(off as usize);
                if want == 0 {
                    break;
                }
                match r.read_to(&mut f, want, off) {
                    Ok(0) => break,
                    Ok(n) => off += n as u64,
                    Err(_) => break,
                }
            }
            let mut v = vec![0u8; off as usize];
            use std::os::unix::fs::FileExt;
            let _ = f.read_exact_at(&mut v, 0);
            payload = v;
        } else {
            let mut buf = vec![0u8; 65536];
            loop {
                let want = (size as usize).saturating_sub(payload.len()).min(buf.len());
                if want == 0 {
                    break;
                }
                match io::Read::read(r, &mut buf[..want]) {
                    Ok(0) => break,
                    Ok(n) => payload.extend_from_slice(&buf[..n]),
                    Err(_) => break,
                }
            }
        }
        self.rec(
            "write",
            Some(ctx),
            json!({"nodeid": inode, "fh": handle, "size": size, "offset": offset, "lock_owner": lock_owner,
                   "delayed_write": delayed_write, "flags": flags, "fuse_flags": fuse_flags,
                   "payload_len": payload.len(), "payload_fnv": crate::engine::fnv(&payload)}),
        );
        if let Some(e) = self.err() {
            return Err(e);
        }
        match &self.res {
            MockRes::Written(n) => Ok((*n).min(size) as usize),
            _ => Ok(payload.len()),
        }
    }
    fn flush(&self, ctx: &Context, inode: u64, handle: u64, lock_owner: u64) -> io::Result<()> {
        self.rec("flush", Some(ctx), json!({"nodeid": inode, "fh": handle, "lock_owner": lock_owner}));
        self.unit()
    }
    fn fsync(&self, ctx: &Context, inode: u64, datasync: bool, handle: u64) -> io::Result<()> {
        self.rec("fsync", Some(ctx), json!({"nodeid": inode, "fh": handle, "datasync": datasync}));
        self.unit()
    }
    fn fallocate(&self, ctx: &Context, inode: u64, handle: u64, mode: u32, offset: u64, length: u64) -> io::Result<()> {
        self.rec("fallocate", Some(ctx), json!({"nodeid": inode, "fh": handle, "mode": mode, "offset": offset, "length": length}));
        self.unit()
    }
    fn release(&self, ctx: &Context, inode: u64, flags: u32, handle: u64, flush: bool, flock_release: bool, lock_owner: Option<u64>) -> io::Result<()> {
        self.rec(
            "release",
            Some(ctx),
            json!({"nodeid": inode, "fh": handle, "flags": flags, "flush": flush, "flock_release": flock_release, "lock_owner": lock_owner}),
        );
        self.unit()
    }
    fn statfs(&self, ctx: &Context, inode: u64) -> io::Result<statvfs64> {
        self.rec("statfs", Some(ctx), json!({"nodeid": inode}));
        if let Some(e) = self.err() {
            return Err(e);
        }
        let mut st: statvfs64 = unsafe { std::mem::zeroed() };
        match &self.res {
            MockRes::Statfs(s) => {
                st.f_blocks = s.blocks;
                st.f_bfree = s.bfree;
                st.f_bavail = s.bavail;
                st.f_files = s.files;
                st.f_ffree = s.ffree;
                st.f_bsize = s.bsize;
                st.f_namemax = s.namemax;
                st.f_frsize = s.frsize;
            }
            _ => {
                st.f_namemax = 255;
                st.f_bsize = 512;
            }
        }
        Ok(st)
    }
    fn setxattr(&self, ctx: &Context, inode: u64, n: &CStr, value: &[u8], flags: u32) -> io::Result<()> {
        self.rec("setxattr", Some(ctx), json!({"nodeid": inode, "name": name(n), "value": hex(value), "flags": flags}));
        self.unit()
    }
    fn getxattr(&self, ctx: &Context, inode: u64, n: &CStr, size: u32) -> io::Result<GetxattrReply> {
        self.rec("getxattr", Some(ctx), json!({"nodeid": inode, "name": name(n), "size": size}));
        if let Some(e) = self.err() {
            return Err(e);
        }
        match &self.res {
            MockRes::Data(d) => {
                // a sound fs never returns more than the client has room for
                let v = d[..d.len().min(size as usize)].to_vec();
                *self.produced.lock().unwrap() = v.clone();
                Ok(GetxattrReply::Value(v))
            }
            MockRes::Count(c) => Ok(GetxattrReply::Count(*c)),
            _ => Ok(GetxattrReply::Count(0)),
        }
    }
    fn listxattr(&self, ctx: &Context, inode: u64, size: u32) -> io::Result<ListxattrReply> {
        self.rec("listxattr", Some(ctx), json!({"nodeid": inode, "size": size}));
        if let Some(e) = self.err() {
            return Err(e);
        }
        match &self.res {
            MockRes::Data(d) => {
                let v = d[..d.len().min(size as usize)].to_vec();
                *self.produced.lock().unwrap() = v.clone();
                Ok(ListxattrReply::Names(v))
            }
            MockRes::Count(c) => Ok(ListxattrReply::Count(*c)),
            _ => Ok(ListxattrReply::Count(0)),
        }
    }
    fn removexattr(&self, ctx: &Context, inode: u64, n: &CStr) -> io::Result<()> {
        self.rec("removexattr", Some(ctx), json!({"nodeid": inode, "name": name(n)}));
        self.unit()
    }
    fn opendir(&self, ctx: &Context, inode: u64, flags: u32) -> io::Result<(Option<u64>, OpenOptions)> {
        self.rec("opendir", Some(ctx), json!({"nodeid": inode, "flags": flags}));
        if let Some(e) = self.err() {
            return Err(e);
        }
        match &self.res {
            MockRes::Open { fh, opts, .. } => Ok((*fh, unsafe { OpenOptions::from_bits_unchecked(*opts) })),
            _ => Ok((Some(9), OpenOptions::empty())),
        }
    }
    fn readdir(
        &self,
        ctx: &Context,
        inode: u64,
        handle: u64,
        size: u32,
        offset: u64,
        add_entry: &mut dyn FnMut(DirEntry) -> io::Result<usize>,
    ) -> io::Result<()> {
        self.rec("readdir", Some(ctx), json!({"nodeid": inode, "fh": handle, "size": size, "offset": offset}));
        if let Some(e) = self.err() {
            return Err(e);
        }
        if let MockRes::Dirents(list) | MockRes::DirentsThenErr(list, _) = &self.res {
            let mut full = false;
            for d in list {
                let r = add_entry(DirEntry {
                    ino: d.ino,
                    offset: d.offset,
                    type_: d.type_,
                    name: &d.name,
                });
                match r {
                    Ok(0) => {
                        self.dir_returns.lock().unwrap().push(0);
                        full = true;
                        break;
                    }
                    Ok(n) => self.dir_returns.lock().unwrap().push(n as i64),
                    Err(e) => {
                        self.dir_returns.lock().unwrap().push(-1);
                        return Err(e);
                    }
                }
            }
            if let (MockRes::DirentsThenErr(_, e), false) = (&self.res, full) {
                self.dir_returns.lock().unwrap().push(DIR_FAILED);
                return Err(e.to_err());
            }
        }
        Ok(())
    }
    fn readdirplus(
        &self,
        ctx: &Context,
        inode: u64,
        handle: u64,
        size: u32,
        offset: u64,
        add_entry: &mut dyn FnMut(DirEntry, Entry) -> io::Result<usize>,
    ) -> io::Result<()> {
        self.rec("readdirplus", Some(ctx), json!({"nodeid": inode, "fh": handle, "size": size, "offset": offset}));
        if let Some(e) = self.err() {
            return Err(e);
        }
        if let MockRes::Dirents(list) | MockRes::DirentsThenErr(list, _) = &self.res {
            let mut full = false;
            for d in list {
                let r = add_entry(
                    DirEntry {
                        ino: d.ino,
                        offset: d.offset,
                        type_: d.type_,
                        name: &d.name,
                    },
                    d.entry.to_entry(),
                );
                match r {
                    Ok(0) => {
                        self.dir_returns.lock().unwrap().push(0);
                        full = true;
                        break;
                    }
                    Ok(n) => self.dir_returns.lock().unwrap().push(n as i64),
                    Err(e) => {
                        self.dir_returns.lock().unwrap().push(-1);
                        return Err(e);
                    }
                }
            }
            if let (MockRes::DirentsThenErr(_, e), false) = (&self.res, full) {
                self.dir_returns.lock().unwrap().push(DIR_FAILED);
                return Err(e.to_err());
            }
        }
        Ok(())
    }
    fn fsyncdir(&self, ctx: &Context, inode: u64, datasync: bool, handle: u64) -> io::Result<()> {
        self.rec("fsyncdir", Some(ctx), json!({"nodeid": inode, "fh": handle, "datasync": datasync}));
        self.unit()
    }
    fn releasedir(&self, ctx: &Context, inode: u64, flags: u32, handle: u64) -> io::Result<()> {
        self.rec("releasedir", Some(ctx), json!({"nodeid": inode, "fh": handle, "flags": flags}));
        self.unit()
    }
    fn setupmapping(
        &self,
        ctx: &Context,
        inode: u64,
        handle: u64,
        foffset: u64,
        len: u64,
        flags: u64,
        moffset: u64,
        _vu_req: &mut dyn FsCacheReqHandler,
    ) -> io::Result<()> {
        self.rec(
            "setupmapping",
            Some(ctx),
            json!({"nodeid": inode, "fh": handle, "foffset": foffset, "len": len, "flags": flags, "moffset": moffset}),
        );
        self.unit()
    }
    fn removemapping(&self, ctx: &Context, inode: u64, requests: Vec<RemovemappingOne>, _vu_req: &mut dyn FsCacheReqHandler) -> io::Result<()> {
        let l: Vec<Value> = requests.iter().map(|r| json!([r.moffset, r.len])).collect();
        self.rec("removemapping", Some(ctx), json!({"nodeid": inode, "items": l}));
        self.unit()
    }
    fn access(&self, ctx: &Context, inode: u64, mask: u32) -> io::Result<()> {
        self.rec("access", Some(ctx), json!({"nodeid": inode, "mask": mask}));
        self.unit()
    }
    fn lseek(&self, ctx: &Context, inode: u64, handle: u64, offset: u64, whence: u32) -> io::Result<u64> {
        self.rec("lseek", Some(ctx), json!({"nodeid": inode, "fh": handle, "offset": offset, "whence": whence}));
        if let Some(e) = self.err() {
            return Err(e);
        }
        match &self.res {
            MockRes::U64(v) => Ok(*v),
            _ => Ok(0),
        }
    }
    fn getlk(&self, ctx: &Context, inode: u64, handle: u64, owner: u64, lock: FileLock, flags: u32) -> io::Result<FileLock> {
        self.rec(
            "getlk",
            Some(ctx),
            json!({"nodeid": inode, "fh": handle, "owner": owner, "lk": [lock.start, lock.end, lock.lock_type, lock.pid], "lk_flags": flags}),
        );
        if let Some(e) = self.err() {
            return Err(e);
        }
        match &self.res {
            MockRes::Lock { start, end, type_, pid } => Ok(FileLock {
                start: *start,
                end: *end,
                lock_type: *type_,
                pid: *pid,
            }),
            _ => Ok(lock),
        }
    }
    fn setlk(&self, ctx: &Context, inode: u64, handle: u64, owner: u64, lock: FileLock, flags: u32) -> io::Result<()> {
        self.rec(
            "setlk",
            Some(ctx),
            json!({"nodeid": inode, "fh": handle, "owner": owner, "lk": [lock.start, lock.end, lock.lock_type, lock.pid], "lk_flags": flags}),
        );
        self.unit()
    }
    fn setlkw(&self, ctx: &Context, inode: u64, handle: u64, owner: u64, lock: FileLock, flags: u32) -> io::Result<()> {
        self.rec(
            "setlkw",
            Some(ctx),
            json!({"nodeid": inode, "fh": handle, "owner": owner, "lk": [lock.start, lock.end, lock.lock_type, lock.pid], "lk_flags": flags}),
        );
        self.unit()
    }
    fn ioctl(&self, ctx: &Context, inode: u64, handle: u64, flags: u32, cmd: u32, data: IoctlData, out_size: u32) -> io::Result<IoctlData<'_>> {
        self.rec(
            "ioctl",
            Some(ctx),
            json!({"nodeid": inode, "fh": handle, "flags": flags, "cmd": cmd, "out_size": out_size,
                   "in_data": data.data.map(hex)}),
        );
        if let Some(e) = self.err() {
            return Err(e);
        }
        match &self.res {
            MockRes::Ioctl { result, data } => {
                let n = data.len().min(out_size as usize);
                *self.produced.lock().unwrap() = data[..n].to_vec();
                Ok(IoctlData {
                    result: *result,
                    data: if n == 0 { None } else { Some(&data[..n]) },
                })
            }
            _ => Ok(IoctlData { result: 0, data: None }),
        }
    }
    fn bmap(&self, ctx: &Context, inode: u64, block: u64, blocksize: u32) -> io::Result<u64> {
        self.rec("bmap", Some(ctx), json!({"nodeid": inode, "block": block, "blocksize": blocksize}));
        if let Some(e) = self.err() {
            return Err(e);
        }
        match &self.res {
            MockRes::U64(v) => Ok(*v),
            _ => Ok(0),
        }
    }
    fn poll(&self, ctx: &Context, inode: u64, handle: u64, khandle: u64, flags: u32, events: u32) -> io::Result<u32> {
        self.rec("poll", Some(ctx), json!({"nodeid": inode, "fh": handle, "kh": khandle, "flags": flags, "events": events}));
        if let Some(e) = self.err() {
            return Err(e);
        }
        match &self.res {
            MockRes::U32(v) => Ok(*v),
            _ => Ok(0),
        }
    }
    fn notify_reply(&self) -> io::Result<()> {
        self.rec("notify_reply", None, json!({}));
        self.unit()
    }
    fn id_remap(&self, ctx: &mut Context) -> io::Result<()> {
        if self.log_remap {
            self.rec("id_remap", Some(ctx), json!({}));
        }
        Ok(())
    }
}
