//! Wire codec driven by the layout table emitted by abi/probe.c (compiled
//! against the kernel's uapi header). Independent of the crate's own structs.
use serde_json::Value;
use std::collections::BTreeMap;
use std::sync::OnceLock;

#[derive(Clone, Debug)]
pub struct Field {
    pub name: String,
    pub offset: usize,
    pub size: usize,
}
#[derive(Clone, Debug)]
pub struct StructL {
    pub size: usize,
    pub fields: Vec<Field>,
}
#[derive(Debug)]
pub struct Layout {
    pub structs: BTreeMap<String, StructL>,
    pub consts: BTreeMap<String, u64>,
    pub enums: BTreeMap<String, u64>,
}

static LAYOUT: OnceLock<Layout> = OnceLock::new();

pub fn layout() -> &'static Layout {
    LAYOUT.get_or_init(|| {
        let root = crate::engine::root();
        let s = std::fs::read_to_string(format!("{}/abi/out/layout.json", root))
            .expect("abi/out/layout.json missing: run setup_cmd");
        let v: Value = serde_json::from_str(&s).unwrap();
        let sup: Value =
            serde_json::from_str(&std::fs::read_to_string(format!("{}/abi/supplement.json", root)).unwrap()).unwrap();
        let mut structs = BTreeMap::new();
        for (name, st) in v["structs"].as_object().unwrap() {
            let mut fields = vec![];
            for f in st["fields"].as_array().unwrap() {
                let mut fname = f["name"].as_str().unwrap().to_string();
                if let Some(r) = sup["field_renames"].get(name).and_then(|m| m.get(&fname)) {
                    fname = r.as_str().unwrap().to_string();
                }
                fields.push(Field {
                    name: fname,
                    offset: f["offset"].as_u64().unwrap() as usize,
                    size: f["size"].as_u64().unwrap() as usize,
                });
            }
            structs.insert(
                name.clone(),
                StructL {
                    size: st["size"].as_u64().unwrap() as usize,
                    fields,
                },
            );
        }
        let mut consts = BTreeMap::new();
        for (k, x) in v["consts"].as_object().unwrap() {
            consts.insert(k.clone(), x.as_u64().unwrap());
        }
        for (k, x) in sup["consts"].as_object().unwrap() {
            consts.insert(k.clone(), x.as_u64().unwrap());
        }
        let mut enums = BTreeMap::new();
        for (k, x) in v["enums"].as_object().unwrap() {
            enums.insert(k.clone(), x.as_u64().unwrap());
        }
        for (k, x) in sup["enums"].as_object().unwrap() {
            enums.insert(k.clone(), x.as_u64().unwrap());
        }
        Layout { structs, consts, enums }
    })
}

pub fn c(name: &str) -> u64 {
    let l = layout();
    *l.consts
        .get(name)
        .or_else(|| l.enums.get(name))
        .unwrap_or_else(|| panic!("unknown kernel constant {}", name))
}

pub fn ssize(name: &str) -> usize {
    layout().structs.get(name).unwrap_or_else(|| panic!("unknown struct {}", name)).size
}

/// Encode a struct by field name. Nested struct fields are addressed as "outer.inner".
pub fn enc(sname: &str, vals: &[(&str, u64)]) -> Vec<u8> {
    let mut buf = vec![0u8; ssize(sname)];
    for (f, v) in vals {
        put(&mut buf, 0, sname, f, *v);
    }
    buf
}

fn nested_struct_of(sname: &str, fname: &str) -> Option<&'static str> {
    match (sname, fname) {
        ("fuse_entry_out", "attr") | ("fuse_attr_out", "attr") => Some("fuse_attr"),
        ("fuse_statfs_out", "st") => Some("fuse_kstatfs"),
        ("fuse_lk_in", "lk") | ("fuse_lk_out", "lk") => Some("fuse_file_lock"),
        ("fuse_direntplus", "entry_out") => Some("fuse_entry_out"),
        ("fuse_direntplus", "dirent") => Some("fuse_dirent"),
        _ => None,
    }
}

pub fn field(sname: &str, fname: &str) -> (usize, usize) {
    // returns (offset, size) supporting dotted paths
    let l = layout();
    let mut s = sname.to_string();
    let mut base = 0usize;
    let parts: Vec<&str> = fname.split('.').collect();
    for (i, p) in parts.iter().enumerate() {
        let st = l.structs.get(&s).unwrap_or_else(|| panic!("unknown struct {}", s));
        let f = st
            .fields
            .iter()
            .find(|f| f.name == *p)
            .unwrap_or_else(|| panic!("unknown field {}.{}", s, p));
        if i + 1 == parts.len() {
            return (base + f.offset, f.size);
        }
        base += f.offset;
        s = nested_struct_of(&s, p)
            .unwrap_or_else(|| panic!("{}.{} is not a nested struct", s, p))
            .to_string();
    }
    unreachable!()
}

pub fn put(buf: &mut [u8], at: usize, sname: &str, fname: &str, v: u64) {
    let (off, size) = field(sname, fname);
    let b = v.to_le_bytes();
    buf[at + off..at + off + size].copy_from_slice(&b[..size]);
}

pub fn get(buf: &[u8], at: usize, sname: &str, fname: &str) -> u64 {
    let (off, size) = field(sname, fname);
    let mut b = [0u8; 8];
    b[..size.min(8)].copy_from_slice(&buf[at + off..at + off + size.min(8)]);
    u64::from_le_bytes(b)
}

pub fn get_signed(buf: &[u8], at: usize, sname: &str, fname: &str) -> i64 {
    let (_, size) = field(sname, fname);
    let v = get(buf, at, sname, fname);
    match size {
        4 => v as u32 as i32 as i64,
        2 => v as u16 as i16 as i64,
        1 => v as u8 as i8 as i64,
        _ => v as i64,
    }
}

/// All leaf scalar fields (dotted paths) of a struct, in layout order.
pub fn leaf_fields(sname: &str) -> Vec<(String, usize, usize)> {
    let l = layout();
    let st = l.structs.get(sname).unwrap_or_else(|| panic!("unknown struct {}", sname));
    let mut out = vec![];
    for f in &st.fields {
        if let Some(n) = nested_struct_of(sname, &f.name) {
            for (p, o, s) in leaf_fields(n) {
                out.push((format!("{}.{}", f.name, p), f.offset + o, s));
            }
        } else {
            out.push((f.name.clone(), f.offset, f.size));
        }
    }
    out
}

pub const IN_HDR: usize = 40;
pub const OUT_HDR: usize = 16;

#[derive(Clone, Debug, Default, serde::Serialize, serde::Deserialize, PartialEq)]
pub struct Hdr {
    pub opcode: u32,
    pub unique: u64,
    pub nodeid: u64,
    pub uid: u32,
    pub gid: u32,
    pub pid: u32,
}

/// Build a full request: header (len = real length unless overridden) + body.
pub fn request(h: &Hdr, body: &[u8]) -> Vec<u8> {
    let mut v = enc(
        "fuse_in_header",
        &[
            ("len", (IN_HDR + body.len()) as u64),
            ("opcode", h.opcode as u64),
            ("unique", h.unique),
            ("nodeid", h.nodeid),
            ("uid", h.uid as u64),
            ("gid", h.gid as u64),
            ("pid", h.pid as u64),
        ],
    );
    assert_eq!(v.len(), IN_HDR);
    v.extend_from_slice(body);
    v
}

#[derive(Clone, Debug)]
pub struct Reply {
    pub len: u32,
    pub error: i32,
    pub unique: u64,
    pub body: Vec<u8>,
}

pub fn parse_reply(bytes: &[u8]) -> Option<Reply> {
    if bytes.len() < OUT_HDR {
        return None;
    }
    Some(Reply {
        len: get(bytes, 0, "fuse_out_header", "len") as u32,
        error: get_signed(bytes, 0, "fuse_out_header", "error") as i32,
        unique: get(bytes, 0, "fuse_out_header", "unique"),
        body: bytes[OUT_HDR..].to_vec(),
    })
}

pub fn op(name: &str) -> u32 {
    c(&format!("FUSE_{}", name)) as u32
}
