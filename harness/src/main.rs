#![allow(dead_code, unused_parens, unused_imports)]
mod codec;
mod engine;
mod jail;
mod mockfs;
mod props;
mod ptdrv;
mod reqgen;
mod transport;
mod vfsdrv;

use engine::Tier;

fn main() {
    let args: Vec<String> = std::env::args().collect();
    if args.len() < 3 {
        eprintln!("usage: fbv check <ID> quick|thorough | fbv replay <ID> <file> | fbv worker ...");
        std::process::exit(2);
    }
    let props = props::all();
    let find = |id: &str| -> &dyn engine::Prop {
        props.iter().find(|p| p.id() == id).map(|b| b.as_ref()).unwrap_or_else(|| {
            eprintln!("unknown property {}", id);
            std::process::exit(2)
        })
    };
    let code = match args[1].as_str() {
        "check" => {
            let tier = match args.get(3).map(|s| s.as_str()).or(std::env::var("VERIF_TIER").ok().as_deref()) {
                Some("thorough") => Tier::Thorough,
                _ => Tier::Quick,
            };
            engine::run_check(find(&args[2]), tier)
        }
        "worker" => engine::run_worker(find(&args[2]), &args[3..]),
        "replay" => engine::run_replay(find(&args[2]), &args[3]),
        // fbv corpus c01_msg <dir> <n>: seed inputs for the libFuzzer target, drawn from the same generator
        "corpus" => {
            let n = args.get(4).and_then(|s| s.parse().ok()).unwrap_or(300);
            let dir = &args[3];
            match args[2].as_str() {
                "c01_msg" => props::c01::write_corpus(dir, n),
                "c02_decode" => engine::write_json_corpus(props::c02::strategy(Tier::Quick), dir, n, 6000),
                "c03_encode" => engine::write_json_corpus(props::c03::strategy(Tier::Quick), dir, n, 6000),
                "c07_vfs" => engine::write_json_corpus(props::c07::strategy(true), dir, n, 12000),
                "c12_init" => engine::write_json_corpus(props::c12::srv_strategy(), dir, n, 6000),
                "c17_dirty" => engine::write_json_corpus(props::c17::msg_strategy(), dir, n, 8000),
                "c19_persist" => engine::write_json_corpus(props::c19::strategy(), dir, n, 12000),
                other => {
                    eprintln!("no corpus generator for {}", other);
                    return std::process::exit(2);
                }
            }
            0
        }
        _ => 2,
    };
    std::process::exit(code);
}
