//! Transport stand-ins: a SEQPACKET socket as /dev/fuse and a hand-built
//! split virtqueue descriptor chain in guest memory with dirty tracking.
use fuse_backend_rs::api::filesystem::FileSystem;
use fuse_backend_rs::api::server::Server;
use fuse_backend_rs::transport::{FsCacheReqHandler, FuseBuf, FuseDevWriter, Reader, VirtioFsWriter, Writer};
use serde::{Deserialize, Serialize};
use std::os::unix::io::RawFd;
use virtio_queue::{Queue, QueueOwnedT, QueueT};
use vm_memory::bitmap::{AtomicBitmap, Bitmap};
use vm_memory::{Address, GuestAddress, GuestMemory, GuestMemoryMmap, GuestMemoryRegion, MemoryRegionAddress};

use crate::engine::Fail;

pub type Gm = GuestMemoryMmap<AtomicBitmap>;

pub const CANARY_PAD: usize = 64;

pub fn canary(i: usize) -> u8 {
    ((i.wrapping_mul(131).wrapping_add(0x5b)) & 0xff) as u8 | 0x80
}

// ---------------------------------------------------------------- fusedev

pub struct SockPair {
    pub tx: RawFd,
    pub rx: RawFd,
}
impl SockPair {
    pub fn new() -> SockPair {
        let mut fds = [0i32; 2];
        let r = unsafe {
            libc::socketpair(
                libc::AF_UNIX,
                libc::SOCK_SEQPACKET | libc::SOCK_NONBLOCK | libc::SOCK_CLOEXEC,
                0,
                fds.as_mut_ptr(),
            )
        };
        assert_eq!(r, 0, "socketpair failed");
        let sz: libc::c_int = 4 << 20;
        unsafe {
            libc::setsockopt(
                fds[0],
                libc::SOL_SOCKET,
                libc::SO_SNDBUFFORCE,
                &sz as *const _ as *const libc::c_void,
                4,
            );
            libc::setsockopt(
                fds[1],
                libc::SOL_SOCKET,
                libc::SO_RCVBUFFORCE,
                &sz as *const _ as *const libc::c_void,
                4,
            );
        }
        SockPair { tx: fds[0], rx: fds[1] }
    }
    /// all datagrams currently queued (one per write call on tx)
    pub fn drain(&self) -> Vec<Vec<u8>> {
        let mut out = vec![];
        // one receive buffer per thread: a fresh 1 MiB allocation per request dominates the cost of
        // history-shaped cases (hundreds of requests each), above all under ASan
        thread_local! {
            static DRAIN: std::cell::RefCell<Vec<u8>> = std::cell::RefCell::new(vec![0u8; (1 << 20) + 8192 + 4096]);
        }
        DRAIN.with(|b| {
        let mut buf = b.borrow_mut();
        loop {
            let n = unsafe { libc::recv(self.rx, buf.as_mut_ptr() as *mut libc::c_void, buf.len(), libc::MSG_DONTWAIT | libc::MSG_TRUNC) };
            if n < 0 {
                break;
            }
            let n = n as usize;
            out.push(buf[..n.min(buf.len())].to_vec());
            if out.len() > 64 {
                break;
            }
        }
        });
        out
    }
}
impl Drop for SockPair {
    fn drop(&mut self) {
        unsafe {
            libc::close(self.tx);
            libc::close(self.rx);
        }
    }
}

pub struct Delivered {
    /// Ok(n) / Err(text) returned by handle_message
    pub ret: Result<usize, String>,
    /// reply messages observed (fusedev: one per write call; virtio: at most one, the bytes at the start of the writable chain)
    pub replies: Vec<Vec<u8>>,
    /// memory-safety / framing failures detected by the transport harness itself
    pub fails: Vec<Fail>,
    /// virtio only: dirty page numbers (gpa >> 12)
    pub dirty_pages: Vec<u64>,
    /// virtio only: bytes changed after the reported message end
    pub extra_after_reply: bool,
}

pub struct NoVu;
impl FsCacheReqHandler for NoVu {
    fn map(&mut self, _foffset: u64, _moffset: u64, _len: u64, _flags: u64, _fd: RawFd) -> std::io::Result<()> {
        Ok(())
    }
    fn unmap(&mut self, _requests: Vec<fuse_backend_rs::abi::virtio_fs::RemovemappingOne>) -> std::io::Result<()> {
        Ok(())
    }
}

/// Serve one request over the /dev/fuse stand-in with a reply buffer of `cap` bytes.
pub fn serve_fusedev<F: FileSystem + Sync>(srv: &Server<F>, req: &[u8], cap: usize, vu: bool) -> Delivered {
    let sp = SockPair::new();
    serve_fusedev_on(srv, req, cap, vu, &sp)
}

pub fn serve_fusedev_on<F: FileSystem + Sync>(srv: &Server<F>, req: &[u8], cap: usize, vu: bool, sp: &SockPair) -> Delivered {
    let mut fails = vec![];
    // request buffer inside a canary frame
    let mut rbuf = vec![0u8; req.len() + 2 * CANARY_PAD];
    for (i, b) in rbuf.iter_mut().enumerate() {
        *b = canary(i);
    }
    rbuf[CANARY_PAD..CANARY_PAD + req.len()].copy_from_slice(req);
    let rsnap = rbuf.clone();
    let mut wbuf = vec![0u8; cap + 2 * CANARY_PAD];
    for (i, b) in wbuf.iter_mut().enumerate() {
        *b = canary(i + 17);
    }
    let wsnap = wbuf.clone();
    let ret = {
        let (_, rest) = rbuf.split_at_mut(CANARY_PAD);
        let (rwin, _) = rest.split_at_mut(req.len());
        let (_, wrest) = wbuf.split_at_mut(CANARY_PAD);
        let (wwin, _) = wrest.split_at_mut(cap);
        let reader: Reader<'_, ()> = Reader::from_fuse_buffer(FuseBuf::new(rwin)).unwrap();
        let writer = FuseDevWriter::<()>::new(sp.tx, wwin).unwrap();
        let mut novu = NoVu;
        let vu_req: Option<&mut dyn FsCacheReqHandler> = if vu { Some(&mut novu) } else { None };
        srv.handle_message(reader, Writer::FuseDev(writer), vu_req, None)
            .map_err(|e| format!("{:?}", e))
    };
    if rbuf != rsnap {
        fails.push(Fail::new("mem/request-buffer-modified", "request buffer or its canary frame was modified"));
    }
    if wbuf[..CANARY_PAD] != wsnap[..CANARY_PAD] || wbuf[CANARY_PAD + cap..] != wsnap[CANARY_PAD + cap..] {
        fails.push(Fail::new("mem/reply-canary", "bytes outside the reply buffer window were modified"));
    }
    let replies = sp.drain();
    Delivered {
        ret,
        replies,
        fails,
        dirty_pages: vec![],
        extra_after_reply: false,
    }
}

// ---------------------------------------------------------------- virtio

#[derive(Clone, Debug, Serialize, Deserialize, PartialEq)]
pub struct Seg {
    pub len: u32,
    /// unused bytes left before this segment
    pub gap: u16,
    /// data region (0..3)
    pub region: u8,
}

#[derive(Clone, Debug, Serialize, Deserialize, PartialEq)]
pub struct ChainSpec {
    pub readable: Vec<Seg>,
    pub writable: Vec<Seg>,
    pub indirect: bool,
    /// offset of the first buffer inside its first page
    pub page_off: u16,
}

impl ChainSpec {
    pub fn simple(rlen: usize, wlen: usize) -> ChainSpec {
        ChainSpec {
            readable: vec![Seg { len: rlen as u32, gap: 0, region: 0 }],
            writable: vec![Seg { len: wlen as u32, gap: 0, region: 0 }],
            indirect: false,
            page_off: 0,
        }
    }
    pub fn rtotal(&self) -> usize {
        self.readable.iter().map(|s| s.len as usize).sum()
    }
    pub fn wtotal(&self) -> usize {
        self.writable.iter().map(|s| s.len as usize).sum()
    }
    /// Re-segment so that the readable part holds exactly `n` bytes, keeping the cut pattern.
    pub fn fit_readable(&mut self, n: usize) {
        fit(&mut self.readable, n);
    }
    pub fn fit_writable(&mut self, n: usize) {
        fit(&mut self.writable, n);
    }
}

fn fit(segs: &mut Vec<Seg>, n: usize) {
    if segs.is_empty() {
        segs.push(Seg { len: 0, gap: 0, region: 0 });
    }
    let mut rem = n;
    let last = segs.len() - 1;
    for (i, s) in segs.iter_mut().enumerate() {
        if i == last {
            s.len = rem as u32;
        } else {
            let l = (s.len as usize).min(rem);
            s.len = l as u32;
            rem -= l;
        }
    }
}

const QREGION_SIZE: usize = 0x10000;
const DESC_TABLE: u64 = 0;
const AVAIL_RING: u64 = 0x4000;
const USED_RING: u64 = 0x5000;
const INDIRECT_TABLE: u64 = 0x8000;
const DATA_BASE: u64 = 0x1000_0000;
const DATA_STRIDE: u64 = 0x1000_0000;
const NREGIONS: usize = 3;

pub struct VirtioEnv {
    pub mem: Gm,
    pub spec: ChainSpec,
    /// (gpa, len) of each readable / writable segment
    pub rsegs: Vec<(u64, usize)>,
    pub wsegs: Vec<(u64, usize)>,
    region_sizes: [usize; NREGIONS],
    snapshot: Vec<Vec<u8>>,
    queue: Queue,
}

fn host_ptr(mem: &Gm, gpa: u64) -> *mut u8 {
    mem.get_host_address(GuestAddress(gpa)).expect("host address")
}

impl VirtioEnv {
    pub fn new(spec: &ChainSpec, request: &[u8]) -> VirtioEnv {
        assert!(spec.readable.len() + spec.writable.len() <= 60);
        assert!(spec.readable.len() + spec.writable.len() >= 1);
        // place segments
        let mut cursor = [spec.page_off as usize % 4096; NREGIONS];
        let mut place = |s: &Seg| -> (u64, usize) {
            let r = (s.region as usize) % NREGIONS;
            cursor[r] += s.gap as usize;
            let at = cursor[r];
            cursor[r] += s.len as usize;
            (DATA_BASE + DATA_STRIDE * r as u64 + at as u64, s.len as usize)
        };
        let rsegs: Vec<(u64, usize)> = spec.readable.iter().map(&mut place).collect();
        let wsegs: Vec<(u64, usize)> = spec.writable.iter().map(&mut place).collect();
        let mut region_sizes = [0usize; NREGIONS];
        let mut ranges = vec![(GuestAddress(0), QREGION_SIZE)];
        for r in 0..NREGIONS {
            region_sizes[r] = ((cursor[r] + 4095) / 4096 + 1) * 4096;
            ranges.push((GuestAddress(DATA_BASE + DATA_STRIDE * r as u64), region_sizes[r]));
        }
        let mem = Gm::from_ranges(&ranges).expect("guest memory");
        // canary fill through host pointers (does not touch the dirty bitmap)
        for r in 0..NREGIONS {
            let base = DATA_BASE + DATA_STRIDE * r as u64;
            let p = host_ptr(&mem, base);
            for i in 0..region_sizes[r] {
                unsafe { *p.add(i) = canary(i + r * 7) };
            }
        }
        // request bytes into readable segments
        assert_eq!(request.len(), rsegs.iter().map(|s| s.1).sum::<usize>(), "request does not fit readable chain");
        let mut off = 0;
        for (gpa, len) in &rsegs {
            if *len > 0 {
                let p = host_ptr(&mem, *gpa);
                unsafe { std::ptr::copy_nonoverlapping(request[off..].as_ptr(), p, *len) };
            }
            off += len;
        }
        // descriptor table
        let total = rsegs.len() + wsegs.len();
        let table_gpa = if spec.indirect { INDIRECT_TABLE } else { DESC_TABLE };
        let tp = host_ptr(&mem, table_gpa);
        for (i, (gpa, len)) in rsegs.iter().chain(wsegs.iter()).enumerate() {
            let mut flags: u16 = 0;
            if i + 1 < total {
                flags |= 1;
            }
            if i >= rsegs.len() {
                flags |= 2;
            }
            let next: u16 = if i + 1 < total { (i + 1) as u16 } else { 0 };
            let mut d = [0u8; 16];
            d[..8].copy_from_slice(&gpa.to_le_bytes());
            d[8..12].copy_from_slice(&(*len as u32).to_le_bytes());
            d[12..14].copy_from_slice(&flags.to_le_bytes());
            d[14..16].copy_from_slice(&next.to_le_bytes());
            unsafe { std::ptr::copy_nonoverlapping(d.as_ptr(), tp.add(i * 16), 16) };
        }
        if spec.indirect {
            let mut d = [0u8; 16];
            d[..8].copy_from_slice(&INDIRECT_TABLE.to_le_bytes());
            d[8..12].copy_from_slice(&((total * 16) as u32).to_le_bytes());
            d[12..14].copy_from_slice(&4u16.to_le_bytes());
            unsafe { std::ptr::copy_nonoverlapping(d.as_ptr(), host_ptr(&mem, DESC_TABLE), 16) };
        }
        // avail ring: flags=0, idx=1, ring[0]=0
        let ap = host_ptr(&mem, AVAIL_RING);
        unsafe {
            std::ptr::copy_nonoverlapping([0u8, 0, 1, 0, 0, 0].as_ptr(), ap, 6);
        }
        let mut queue = Queue::new(64).expect("queue");
        queue.set_size(64);
        queue.set_desc_table_address(Some(DESC_TABLE as u32), Some(0));
        queue.set_avail_ring_address(Some(AVAIL_RING as u32), Some(0));
        queue.set_used_ring_address(Some(USED_RING as u32), Some(0));
        queue.set_ready(true);
        let mut env = VirtioEnv {
            mem,
            spec: spec.clone(),
            rsegs,
            wsegs,
            region_sizes,
            snapshot: vec![],
            queue,
        };
        env.snapshot = env.dump();
        env
    }

    pub fn dump(&self) -> Vec<Vec<u8>> {
        let mut out = vec![];
        for r in 0..NREGIONS {
            let base = DATA_BASE + DATA_STRIDE * r as u64;
            let p = host_ptr(&self.mem, base);
            let mut v = vec![0u8; self.region_sizes[r]];
            unsafe { std::ptr::copy_nonoverlapping(p, v.as_mut_ptr(), v.len()) };
            out.push(v);
        }
        out
    }

    /// The descriptor chain as a device pops it. The returned chain refers to
    /// `self.mem`; callers must not let it outlive `self`.
    pub fn chain(&mut self) -> virtio_queue::DescriptorChain<&'static Gm> {
        self.queue.set_next_avail(0);
        let mem2: &'static Gm = unsafe { &*(&self.mem as *const Gm) };
        self.queue.iter(mem2).expect("queue iter").next().expect("one chain available")
    }
    pub fn mem_static(&self) -> &'static Gm {
        unsafe { &*(&self.mem as *const Gm) }
    }

    /// concatenation of the writable segments as they are now
    pub fn wbytes(&self) -> Vec<u8> {
        let mut v = vec![];
        for (gpa, len) in &self.wsegs {
            let p = host_ptr(&self.mem, *gpa);
            let mut b = vec![0u8; *len];
            unsafe { std::ptr::copy_nonoverlapping(p, b.as_mut_ptr(), *len) };
            v.extend(b);
        }
        v
    }
    /// original content (canary) of the writable segments
    pub fn wbytes_before(&self) -> Vec<u8> {
        let mut v = vec![];
        for (gpa, len) in &self.wsegs {
            let r = ((*gpa - DATA_BASE) / DATA_STRIDE) as usize;
            let off = ((*gpa - DATA_BASE) % DATA_STRIDE) as usize;
            v.extend_from_slice(&self.snapshot[r][off..off + len]);
        }
        v
    }

    /// every byte outside the writable segments is as it was
    pub fn outside_unchanged(&self) -> bool {
        let now = self.dump();
        for r in 0..NREGIONS {
            let mut mask = vec![false; self.region_sizes[r]];
            for (gpa, len) in &self.wsegs {
                let rr = ((*gpa - DATA_BASE) / DATA_STRIDE) as usize;
                if rr == r {
                    let off = ((*gpa - DATA_BASE) % DATA_STRIDE) as usize;
                    for m in &mut mask[off..off + len] {
                        *m = true;
                    }
                }
            }
            for i in 0..self.region_sizes[r] {
                if !mask[i] && now[r][i] != self.snapshot[r][i] {
                    return false;
                }
            }
        }
        true
    }

    /// dirty page numbers (gpa >> 12) over the data regions
    pub fn dirty_pages(&self) -> Vec<u64> {
        let mut out = vec![];
        for r in 0..NREGIONS {
            let base = DATA_BASE + DATA_STRIDE * r as u64;
            let region = self.mem.find_region(GuestAddress(base)).unwrap();
            let bm = region.bitmap();
            for pg in 0..self.region_sizes[r] / 4096 {
                if bm.dirty_at(pg * 4096) {
                    out.push((base >> 12) + pg as u64);
                }
            }
        }
        out
    }

    /// pages intersecting the first `n` bytes of the writable chain starting at chain offset `from`
    pub fn pages_of_wrange(&self, from: usize, n: usize) -> Vec<u64> {
        let mut out = std::collections::BTreeSet::new();
        let mut pos = 0usize;
        for (gpa, len) in &self.wsegs {
            let s = pos.max(from);
            let e = (pos + len).min(from + n);
            if s < e {
                let a = gpa + (s - pos) as u64;
                let b = gpa + (e - pos) as u64 - 1;
                for pg in (a >> 12)..=(b >> 12) {
                    out.insert(pg);
                }
            }
            pos += len;
        }
        out.into_iter().collect()
    }

    pub fn region_of(&self, gpa: u64) -> MemoryRegionAddress {
        MemoryRegionAddress((gpa - DATA_BASE) % DATA_STRIDE)
    }
}

/// Serve one request over a virtio descriptor chain.
pub fn serve_virtio<F: FileSystem + Sync>(srv: &Server<F>, req: &[u8], spec: &ChainSpec, vu: bool) -> (Delivered, VirtioEnv) {
    let mut spec = spec.clone();
    spec.fit_readable(req.len());
    let mut env = VirtioEnv::new(&spec, req);
    let mut fails = vec![];
    let ret = {
        let chain = env.chain();
        let mem: &'static Gm = env.mem_static();
        let reader = Reader::from_descriptor_chain(mem, chain.clone());
        let writer = VirtioFsWriter::new(mem, chain);
        match (reader, writer) {
            (Ok(r), Ok(w)) => {
                let mut novu = NoVu;
                let vu_req: Option<&mut dyn FsCacheReqHandler> = if vu { Some(&mut novu) } else { None };
                srv.handle_message(r, Writer::VirtioFs(w), vu_req, None).map_err(|e| format!("{:?}", e))
            }
            (Err(e), _) => Err(format!("reader: {:?}", e)),
            (_, Err(e)) => Err(format!("writer: {:?}", e)),
        }
    };
    if !env.outside_unchanged() {
        fails.push(Fail::new("mem/guest-outside-writable", "guest memory outside the writable descriptors was modified"));
    }
    let now = env.wbytes();
    let before = env.wbytes_before();
    let mut replies = vec![];
    let mut extra = false;
    let changed_hdr = now.len() >= 16 && now[..16] != before[..16];
    let first_diff = now.iter().zip(before.iter()).position(|(a, b)| a != b);
    if changed_hdr {
        let len = u32::from_le_bytes([now[0], now[1], now[2], now[3]]) as usize;
        if len >= 16 && len <= now.len() {
            replies.push(now[..len].to_vec());
            if now[len..] != before[len..] {
                extra = true;
            }
        } else {
            // header present but length field does not describe the bytes: hand over everything changed
            let last = now.iter().zip(before.iter()).rposition(|(a, b)| a != b).unwrap_or(0);
            replies.push(now[..=last].to_vec());
        }
    } else if first_diff.is_some() {
        // bytes written but no header at the start of the chain
        extra = true;
    }
    let dirty = env.dirty_pages();
    (
        Delivered {
            ret,
            replies,
            fails,
            dirty_pages: dirty,
            extra_after_reply: extra,
        },
        env,
    )
}

pub fn fd_count() -> usize {
    std::fs::read_dir("/proc/self/fd").map(|d| d.count()).unwrap_or(0)
}

#[allow(dead_code)]
pub fn addr_of(a: GuestAddress) -> u64 {
    a.raw_value()
}
