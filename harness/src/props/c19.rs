//! C19 — saving and restoring VFS state reproduces the same namespace.
//! Differential: the original VFS and a VFS restored from its snapshot receive
//! the same probe script and the remaining suffix of the history.
use crate::codec::{self, c, ssize};
use crate::engine::*;
use crate::props::c07::{id_strategy, map_strategy, tree_spec, Map3, NAMES, PATHS};
use crate::vfsdrv::*;
use fuse_backend_rs::api::VfsOptions;
use proptest::prelude::*;
use serde::{Deserialize, Serialize};
use serde_json::{json, Value};
use std::collections::BTreeMap;

#[derive(Clone, Debug, Serialize, Deserialize, PartialEq)]
pub enum Op {
    Mount { b: u8, path: u8, map: Option<Map3> },
    Umount { path: u8 },
    Burst(u16),
    Walk(Vec<u8>),
    Getattr { sel: u16, uid: u32, gid: u32 },
    Readdir { sel: u16, plus: bool },
    Create { sel: u16, uid: u32 },
    Open { sel: u16 },
    Init(u64),
    Destroy,
}

#[derive(Clone, Debug, Serialize, Deserialize, PartialEq)]
pub struct Case {
    pub no_open: bool,
    pub no_opendir: bool,
    pub global: Option<Map3>,
    pub backends: Vec<TreeSpec>,
    pub ops: Vec<Op>,
    /// save after this many ops (mapped onto 0..=len)
    pub cut: u16,
    /// also check a snapshot written in format version 1
    pub v1: bool,
    /// both instances run with set_remove_pseudo_root(): umount evicts pseudo directories
    #[serde(default)]
    pub evict: bool,
}

struct Mnt {
    serial: usize,
    fs: TreeFs,
    slot: u8,
    path: String,
    live: bool,
    map: Option<Map3>,
}

struct Dw {
    w: VfsWorld,
    mounts: Vec<Mnt>,
    at: BTreeMap<String, usize>,
}

fn opts_of(cs: &Case) -> VfsOptions {
    let mut o = VfsOptions::default();
    o.no_open = cs.no_open;
    o.no_opendir = cs.no_opendir;
    if let Some(m) = cs.global {
        o.id_mapping = m;
    }
    o
}

/// mask time fields of every fuse_attr in an entry/attr reply (pseudo entries carry "now")
fn mask_times(op: &str, body: &mut Vec<u8>) {
    let zero = |b: &mut Vec<u8>, s: &str, base: usize, pre: &str| {
        for f in ["atime", "mtime", "ctime", "atimensec", "mtimensec", "ctimensec"] {
            let (o, n) = codec::field(s, &format!("{}{}", pre, f));
            if base + o + n <= b.len() {
                for x in &mut b[base + o..base + o + n] {
                    *x = 0;
                }
            }
        }
    };
    match op {
        "LOOKUP" | "CREATE" | "MKDIR" => zero(body, "fuse_entry_out", 0, "attr."),
        "GETATTR" => zero(body, "fuse_attr_out", 0, "attr."),
        "READDIRPLUS" => {
            let esz = ssize("fuse_entry_out");
            let dsz = ssize("fuse_dirent");
            let mut pos = 0;
            while pos + esz + dsz <= body.len() {
                zero(body, "fuse_entry_out", pos, "attr.");
                let namelen = codec::get(body, pos + esz, "fuse_dirent", "namelen") as usize;
                pos += esz + ((dsz + namelen + 7) & !7);
            }
        }
        _ => {}
    }
}

impl Dw {
    fn new(cs: &Case) -> Dw {
        Dw { w: VfsWorld::new_with(opts_of(cs), cs.evict), mounts: vec![], at: BTreeMap::new() }
    }

    fn req(&self, r: &crate::reqgen::Req) -> Value {
        let (mut rep, log) = self.w.call(r);
        mask_times(&r.op, &mut rep.body);
        json!({"replies": rep.nreplies, "error": rep.error, "body": crate::mockfs::hex(&rep.body), "log": log.iter().map(|(t, v)| json!([t, v])).collect::<Vec<_>>()})
    }

    /// apply one op; `known` = client inode numbers learned so far (shared between the two worlds)
    fn apply(&mut self, cs: &Case, op: &Op, known: &mut Vec<u64>, learn: bool) -> Vec<Value> {
        let mut obs = vec![];
        match op {
            Op::Mount { b, path, map } => {
                let bi = *b as usize % cs.backends.len();
                let p = PATHS[*path as usize % PATHS.len()];
                obs.push(self.mount(&cs.backends[bi], p, *map));
            }
            Op::Umount { path } => {
                let p = PATHS[*path as usize % PATHS.len()];
                obs.push(self.umount(p));
            }
            Op::Burst(n) => {
                let spec = TreeSpec { root_ino: 5, root_uid: 0, root_gid: 0, children: vec![] };
                for _ in 0..*n {
                    let a = self.mount(&spec, "/s", None);
                    let b = self.umount("/s");
                    obs.push(json!([a, b]));
                }
            }
            Op::Walk(comps) => {
                let mut cur = 1u64;
                for ci in comps {
                    let name = NAMES[*ci as usize % NAMES.len()];
                    let r = mkreq("LOOKUP", cur, 0, 0, &[], &[name.as_bytes()], &[]);
                    let (mut rep, log) = self.w.call(&r);
                    let e = rep.entry(0);
                    mask_times("LOOKUP", &mut rep.body);
                    obs.push(json!({"lookup": name, "error": rep.error, "body": crate::mockfs::hex(&rep.body), "log": log.iter().map(|(t, v)| json!([t, v])).collect::<Vec<_>>()}));
                    match e {
                        Some(e) if e.nodeid != 0 => {
                            if learn && !known.contains(&e.nodeid) {
                                known.push(e.nodeid);
                            }
                            cur = e.nodeid;
                        }
                        _ => break,
                    }
                }
            }
            Op::Getattr { sel, uid, gid } => {
                let n = known[pick_idx(*sel, known.len())];
                obs.push(self.req(&mkreq("GETATTR", n, *uid, *gid, &[], &[], &[])));
            }
            Op::Readdir { sel, plus } => {
                let n = known[pick_idx(*sel, known.len())];
                obs.push(self.req(&mkreq(if *plus { "READDIRPLUS" } else { "READDIR" }, n, 0, 0, &[("fh", 0), ("size", 16384)], &[], &[])));
            }
            Op::Create { sel, uid } => {
                let n = known[pick_idx(*sel, known.len())];
                let r = mkreq("CREATE", n, *uid, *uid, &[("flags", 0x42), ("mode", 0o644)], &[b"newf"], &[]);
                let (mut rep, log) = self.w.call(&r);
                if let Some(e) = rep.entry(0) {
                    if learn && e.nodeid != 0 && !known.contains(&e.nodeid) {
                        known.push(e.nodeid);
                    }
                }
                mask_times("CREATE", &mut rep.body);
                obs.push(json!({"create": n, "error": rep.error, "body": crate::mockfs::hex(&rep.body), "log": log.iter().map(|(t, v)| json!([t, v])).collect::<Vec<_>>()}));
            }
            Op::Open { sel } => {
                let n = known[pick_idx(*sel, known.len())];
                obs.push(self.req(&mkreq("OPEN", n, 0, 0, &[("flags", 0)], &[], &[])));
                obs.push(self.req(&mkreq("OPENDIR", n, 0, 0, &[("flags", 0)], &[], &[])));
            }
            Op::Init(flags) => {
                let r = mkreq(
                    "INIT",
                    0,
                    0,
                    0,
                    &[("major", 7), ("minor", 38), ("max_readahead", 4096), ("flags", (*flags & 0xffff_ffff) | c("FUSE_INIT_EXT")), ("flags2", *flags >> 32)],
                    &[],
                    &[],
                );
                obs.push(self.req(&r));
            }
            Op::Destroy => {
                obs.push(self.req(&mkreq("DESTROY", 0, 0, 0, &[], &[], &[])));
            }
        }
        obs
    }

    fn mount(&mut self, spec: &TreeSpec, path: &str, map: Option<Map3>) -> Value {
        let serial = self.mounts.len();
        let fs = TreeFs::new(serial, spec, self.w.log.clone());
        let r = self.w.vfs.mount_with_id_mapping(Box::new(fs.clone()), path, map);
        let log = self.w.take_log();
        let p = path.to_string();
        match r {
            Ok(idx) => {
                if let Some(old) = self.at.get(&p).copied() {
                    self.mounts[old].live = false;
                }
                self.at.insert(p.clone(), serial);
                self.mounts.push(Mnt { serial, fs, slot: idx, path: p, live: true, map });
                json!({"mount": path, "index": idx, "log": log.iter().map(|(t, v)| json!([t, v])).collect::<Vec<_>>()})
            }
            Err(e) => {
                self.mounts.push(Mnt { serial, fs, slot: 0, path: p, live: false, map });
                json!({"mount": path, "error": format!("{:?}", e)})
            }
        }
    }

    fn umount(&mut self, path: &str) -> Value {
        let r = self.w.vfs.umount(path);
        let log = self.w.take_log();
        if r.is_ok() {
            if let Some(s) = self.at.remove(path) {
                self.mounts[s].live = false;
            }
        }
        json!({"umount": path, "ok": r.is_ok(), "ret": r.ok().map(|(a, b)| json!([a, b])), "log": log.iter().map(|(t, v)| json!([t, v])).collect::<Vec<_>>()})
    }

    /// Build the restored twin from a snapshot.
    fn restored(&self, cs: &Case, bytes: &mut Vec<u8>) -> Result<Dw, String> {
        let w = VfsWorld::new_with(opts_of(cs), cs.evict);
        w.vfs.restore_from_bytes(bytes).map_err(|e| format!("restore_from_bytes: {:?}", e))?;
        let mut mounts = vec![];
        for m in &self.mounts {
            let fs = m.fs.snapshot(m.serial, w.log.clone());
            if m.live {
                w.vfs
                    .restore_mount(Box::new(fs.clone()), m.slot, &m.path)
                    .map_err(|e| format!("restore_mount({}, {}): {:?}", m.slot, m.path, e))?;
            }
            mounts.push(Mnt { serial: m.serial, fs, slot: m.slot, path: m.path.clone(), live: m.live, map: m.map });
        }
        w.take_log();
        Ok(Dw { w, mounts, at: self.at.clone() })
    }
}

fn probe_script(known: &[u64]) -> Vec<Op> {
    let mut v = vec![];
    // walks of every pseudo path and a few beyond
    for p in [vec![0u8], vec![1], vec![2], vec![3], vec![0, 1], vec![0, 2], vec![1, 0, 2], vec![0, 4], vec![2, 5], vec![7], vec![0, 7], vec![3, 4]] {
        v.push(Op::Walk(p));
    }
    for i in 0..known.len() {
        let sel = ((i as u32 * 65536 + 32768) / known.len() as u32) as u16;
        v.push(Op::Getattr { sel, uid: 1005, gid: 2003 });
        v.push(Op::Readdir { sel, plus: false });
        v.push(Op::Readdir { sel, plus: true });
        v.push(Op::Open { sel });
    }
    v.push(Op::Init(0x1_0000_ffff));
    v
}

pub fn run(cs: &Case) -> Outcome {
    let mut out = Outcome::default();
    let cut = pick_idx(cs.cut, cs.ops.len() + 1);
    let mut a = Dw::new(cs);
    let mut known: Vec<u64> = vec![1];
    for op in &cs.ops[..cut] {
        a.apply(cs, op, &mut known, true);
    }
    let live = a.mounts.iter().filter(|m| m.live).count();
    let dead = a.mounts.iter().filter(|m| !m.live).count();
    let permount = a.mounts.iter().any(|m| m.live && m.map.is_some());
    out.nontrivial = (a.mounts.len() >= 2 && dead >= 1) || permount || live >= 2;
    if permount {
        out.class("persist:per-mount-mapping");
    }
    if dead >= 1 {
        out.class("persist:after-umount-or-overmount");
    }
    if a.w.vfs.initialized() {
        out.class("persist:initialized");
    }
    out.class(format!("persist:cut={}", if cut == 0 { "0" } else if cut == cs.ops.len() { "end" } else { "mid" }));
    let mut bytes = match a.w.vfs.save_to_bytes() {
        Ok(b) => b,
        Err(e) => {
            out.fail("persist/save-failed", format!("{:?}", e));
            return out;
        }
    };
    let mut variants: Vec<(&str, Dw)> = vec![];
    match a.restored(cs, &mut bytes) {
        Ok(b) => variants.push(("current", b)),
        Err(e) => {
            out.fail("persist/restore-failed", e);
            return out;
        }
    }
    if cs.v1 && !a.mounts.iter().any(|m| m.map.is_some()) {
        out.class("persist:v1-snapshot");
        match a.w.vfs.verif_save_to_bytes_version(1) {
            Ok(mut b1) => match a.restored(cs, &mut b1) {
                Ok(b) => variants.push(("v1", b)),
                Err(e) => {
                    out.fail("persist/v1-restore-failed", e);
                    return out;
                }
            },
            Err(e) => {
                out.fail("persist/v1-save-failed", format!("{:?}", e));
                return out;
            }
        }
    }
    // same script on the original and on each restored twin
    let mut script = probe_script(&known);
    script.extend(cs.ops[cut..].iter().cloned());
    script.extend(probe_script(&known));
    // original first, learning new inode numbers as it goes; the twins replay with the same selections
    let mut obs_a = vec![];
    let mut known_steps = vec![];
    for op in &script {
        known_steps.push(known.clone());
        obs_a.push(a.apply(cs, op, &mut known, true));
    }
    for (vname, mut b) in variants {
        for (i, op) in script.iter().enumerate() {
            let mut k = known_steps[i].clone();
            let ob = b.apply(cs, op, &mut k, false);
            if ob != obs_a[i] {
                let what = match op {
                    Op::Mount { .. } => "mount",
                    Op::Umount { .. } => "umount",
                    Op::Burst(_) => "burst",
                    Op::Walk(_) => "walk",
                    Op::Getattr { .. } => "getattr",
                    Op::Readdir { .. } => "readdir",
                    Op::Create { .. } => "create",
                    Op::Open { .. } => "open",
                    Op::Init(_) => "init",
                    Op::Destroy => "destroy",
                };
                // find first differing observation
                let (x, y) = obs_a[i].iter().zip(ob.iter()).find(|(x, y)| x != y).map(|(x, y)| (x.clone(), y.clone())).unwrap_or((json!(obs_a[i].len()), json!(ob.len())));
                out.fail(
                    format!("persist/{}/diverges-at-{}", vname, what),
                    format!("step {} ({:?}): original answered {} but the restored VFS answered {}", i, op, shorten(&x), shorten(&y)),
                );
                return out;
            }
        }
    }
    out
}

/// cross-field constraints of the generators (see c07::in_domain)
pub fn in_domain(cs: &Case) -> bool {
    use crate::props::c07::{map_ok, tree_ok};
    cs.global.iter().all(|m| map_ok(m) && m.2 > 0)
        && !cs.backends.is_empty()
        && cs.backends.iter().all(tree_ok)
        && cs.ops.iter().all(|o| match o {
            Op::Mount { map, .. } => map.iter().all(map_ok),
            _ => true,
        })
}

pub fn strategy() -> BoxedStrategy<Case> {
    let mapopt = prop_oneof![3 => Just(None), 1 => map_strategy().prop_map(Some)];
    let op = prop_oneof![
        6 => (any::<u8>(), 0u8..PATHS.len() as u8, prop_oneof![8 => mapopt.clone(), 1 => Just(Some((1000u32, 2000u32, 0u32)))]).prop_map(|(b, path, map)| Op::Mount { b, path, map }),
        3 => (0u8..PATHS.len() as u8).prop_map(|path| Op::Umount { path }),
        1 => prop_oneof![3 => 1u16..6, 1 => 250u16..260].prop_map(Op::Burst),
        4 => proptest::collection::vec(0u8..NAMES.len() as u8, 1..4).prop_map(Op::Walk),
        2 => (any::<u16>(), id_strategy(), id_strategy()).prop_map(|(sel, uid, gid)| Op::Getattr { sel, uid, gid }),
        1 => (any::<u16>(), any::<bool>()).prop_map(|(sel, plus)| Op::Readdir { sel, plus }),
        1 => (any::<u16>(), id_strategy()).prop_map(|(sel, uid)| Op::Create { sel, uid }),
        2 => prop_oneof![Just(0x7fff_ffffu64), Just(0x3_ffff_ffff), any::<u64>().prop_map(|v| v | 1)].prop_map(Op::Init),
        1 => Just(Op::Destroy),
    ];
    (any::<bool>(), any::<bool>(), mapopt, proptest::collection::vec(tree_spec(), 1..3), proptest::collection::vec(op, 0..14), any::<u16>(), any::<bool>(), prop::bool::weighted(0.4))
        .prop_map(|(no_open, no_opendir, global, backends, ops, cut, v1, evict)| Case { no_open, no_opendir, global, backends, ops, cut, v1, evict })
        .boxed()
}

pub struct C19;

impl Prop for C19 {
    fn id(&self) -> &'static str {
        "C19"
    }
    fn meta(&self) -> Meta {
        Meta {
            rule: "histories (0..14 ops: mount/over-mount/umount incl. bursts past 255, walks, requests, INIT with non-empty capability words, DESTROY; global and per-mount id mappings; 40% of cases with set_remove_pseudo_root so that umount evicts pseudo directories) cut at a generated prefix; at the cut the VFS is saved, a fresh VFS is restored and the live backends re-attached at their recorded indices; both then receive an identical probe script (walks of all pseudo paths, getattr/readdir/readdirplus/open on every inode number issued before the save, id-mapped requests, a second INIT) followed by the remaining suffix of the history and the probe script again; replies (pseudo timestamps masked) and backend call logs must be identical, mounts must obtain identical indices; also with snapshots written in format version 1 (when no per-mount mapping exists); non-trivial = prefix with >= 2 live mounts, or an unmounted/over-mounted one, or a per-mount mapping; distinct = distinct serialized case (history, cut)",
            assumptions: vec![
                "an INIT whose capability word is empty is not generated (the crate persists 'initialized' as 'in_opts non-empty')".into(),
                "version-1 snapshots are produced with the cfg-guarded hook Vfs::verif_save_to_bytes_version(1)".into(),
                "backends are re-created from a deep copy of their state at the cut".into(),
            ],
            ..Meta::default()
        }
    }
    fn worker(&self, w: &WorkerCtx) -> WorkerResult {
        let n = w.share(w.tier.pick(12_000, 400_000));
        drive(w, "C19", "history", n, strategy(), run)
    }
    fn replay(&self, _kind: &str, case: &Value) -> Vec<Fail> {
        let c: Case = serde_json::from_value(case.clone()).expect("case");
        run(&c).fails
    }
}
