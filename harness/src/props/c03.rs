//! C03 — each reply is the exact wire encoding of what the filesystem returned.
use crate::codec::{self, c, get, get_signed, ssize, Hdr};
use crate::engine::*;
use crate::mockfs::*;
use crate::props::c02::chain_strategy;
use crate::reqgen::{self, val_of_width, NameB, Req};
use crate::transport::{self, ChainSpec};
use fuse_backend_rs::api::server::Server;
use fuse_backend_rs::transport::FuseDevWriter;
use proptest::prelude::*;
use serde::{Deserialize, Serialize};
use serde_json::Value;
use std::collections::BTreeMap;
use std::sync::Arc;

#[derive(Clone, Debug, Serialize, Deserialize)]
pub struct Case {
    pub op: String,
    pub res: MockRes,
    pub unique: u64,
    /// size field for READ/READDIR(PLUS)/GETXATTR/LISTXATTR; out_size for IOCTL
    pub size: u32,
    pub virtio: Option<ChainSpec>,
    /// send INIT with this minor first
    pub minor: Option<u32>,
}

#[derive(Clone, Debug, Serialize, Deserialize)]
pub enum Notify {
    InvalEntry { parent: u64, name: NameB },
    InvalInode { ino: u64, off: u64, len: u64 },
    Resend,
}

pub struct C03;

fn i64s() -> BoxedStrategy<i64> {
    val_of_width(8).prop_map(|v| v as i64).boxed()
}
fn nsecs() -> BoxedStrategy<i64> {
    prop_oneof![Just(0i64), Just(999_999_999i64), 0i64..1_000_000_000].boxed()
}

pub fn stat_strategy() -> BoxedStrategy<StatSpec> {
    (
        (val_of_width(8), val_of_width(4), val_of_width(8), val_of_width(4), val_of_width(4), val_of_width(8)),
        (i64s(), i64s(), i64s()),
        (i64s(), nsecs(), i64s(), nsecs(), i64s(), nsecs()),
    )
        .prop_map(|((ino, mode, nlink, uid, gid, rdev), (size, blksize, blocks), (a, an, m, mn, cc, cn))| StatSpec {
            ino,
            mode: mode as u32,
            nlink,
            uid: uid as u32,
            gid: gid as u32,
            rdev,
            size,
            blksize,
            blocks,
            atime: a,
            atime_nsec: an,
            mtime: m,
            mtime_nsec: mn,
            ctime: cc,
            ctime_nsec: cn,
        })
        .boxed()
}

fn nsec32() -> BoxedStrategy<u32> {
    prop_oneof![Just(0u32), Just(999_999_999u32), 0u32..1_000_000_000].boxed()
}

pub fn entry_strategy() -> BoxedStrategy<EntrySpec> {
    (val_of_width(8), val_of_width(8), stat_strategy(), val_of_width(4), val_of_width(8), nsec32(), val_of_width(8), nsec32())
        .prop_map(|(inode, generation, attr, fl, as_, an, es, en)| EntrySpec {
            inode,
            generation,
            attr,
            attr_flags: fl as u32,
            attr_secs: as_,
            attr_nsec: an,
            entry_secs: es,
            entry_nsec: en,
        })
        .boxed()
}

pub fn err_strategy() -> BoxedStrategy<ErrSpec> {
    prop_oneof![
        6 => (1i32..=133).prop_map(ErrSpec::Os),
        1 => prop_oneof![Just(4095i32), Just(4094), Just(134), Just(512), Just(1000)].prop_map(ErrSpec::Os),
        3 => (0u8..KINDS.len() as u8).prop_map(ErrSpec::Kind),
    ]
    .boxed()
}

fn bytes(max: usize) -> BoxedStrategy<Vec<u8>> {
    prop_oneof![
        2 => proptest::collection::vec(any::<u8>(), 0..40),
        2 => proptest::collection::vec(any::<u8>(), 0..5000),
        1 => proptest::collection::vec(any::<u8>(), 0..max.max(1)),
    ]
    .boxed()
}

fn opt_u64() -> BoxedStrategy<Option<u64>> {
    prop_oneof![1 => Just(None), 3 => val_of_width(8).prop_map(Some)].boxed()
}
fn opt_u32() -> BoxedStrategy<Option<u32>> {
    prop_oneof![1 => Just(None), 2 => val_of_width(4).prop_map(|v| Some(v as u32))].boxed()
}

fn dirent_name() -> BoxedStrategy<Vec<u8>> {
    let b = prop_oneof![4 => b'a'..=b'z', 1 => 1u8..=255u8].prop_filter("no slash", |x| *x != b'/');
    prop_oneof![
        8 => proptest::collection::vec(b.clone(), 1..=17),
        2 => proptest::collection::vec(b.clone(), 1..=255),
        1 => proptest::collection::vec(b, 248..=255),
    ]
    .boxed()
}

fn dirents() -> BoxedStrategy<Vec<DirentSpec>> {
    let d = (val_of_width(8), val_of_width(8), val_of_width(4), dirent_name(), entry_strategy()).prop_map(|(ino, offset, t, name, entry)| DirentSpec {
        ino,
        offset,
        type_: t as u32,
        name,
        entry,
    });
    prop_oneof![
        5 => proptest::collection::vec(d.clone(), 0..12),
        1 => proptest::collection::vec(d, 0..400),
    ]
    .boxed()
}

pub fn ok_result(op: &str, max: usize) -> BoxedStrategy<MockRes> {
    match op {
        "LOOKUP" | "SYMLINK" | "MKNOD" | "MKDIR" | "LINK" => entry_strategy().prop_map(MockRes::Entry).boxed(),
        "GETATTR" | "SETATTR" => (stat_strategy(), val_of_width(8), nsec32()).prop_map(|(s, a, n)| MockRes::Attr(s, a, n)).boxed(),
        "READLINK" => prop_oneof![proptest::collection::vec(any::<u8>(), 0..64), proptest::collection::vec(any::<u8>(), 0..4096)]
            .prop_map(MockRes::Data)
            .boxed(),
        "OPEN" | "OPENDIR" => (opt_u64(), val_of_width(4), opt_u32())
            .prop_map(|(fh, o, p)| MockRes::Open { fh, opts: o as u32, passthrough: p })
            .boxed(),
        "CREATE" => (entry_strategy(), opt_u64(), val_of_width(4), opt_u32())
            .prop_map(|(entry, fh, o, p)| MockRes::Create { entry, fh, opts: o as u32, passthrough: p })
            .boxed(),
        "READ" => (
            bytes(max),
            prop_oneof![Just(ReadMode::Write), Just(ReadMode::WriteFrom), Just(ReadMode::Both)],
        )
            .prop_map(|(data, mode)| MockRes::Read { data, mode })
            .boxed(),
        "WRITE" => val_of_width(4).prop_map(|v| MockRes::Written(v as u32)).boxed(),
        "STATFS" => (val_of_width(8), val_of_width(8), val_of_width(8), val_of_width(8), val_of_width(8), val_of_width(8), val_of_width(8), val_of_width(8))
            .prop_map(|(blocks, bfree, bavail, files, ffree, bsize, namemax, frsize)| {
                MockRes::Statfs(StatfsSpec { blocks, bfree, bavail, files, ffree, bsize, namemax, frsize })
            })
            .boxed(),
        "GETXATTR" | "LISTXATTR" => prop_oneof![bytes(max).prop_map(MockRes::Data), val_of_width(4).prop_map(|v| MockRes::Count(v as u32))].boxed(),
        "GETLK" => (val_of_width(8), val_of_width(8), val_of_width(4), val_of_width(4))
            .prop_map(|(start, end, t, p)| MockRes::Lock { start, end, type_: t as u32, pid: p as u32 })
            .boxed(),
        "BMAP" | "LSEEK" => val_of_width(8).prop_map(MockRes::U64).boxed(),
        "POLL" => val_of_width(4).prop_map(|v| MockRes::U32(v as u32)).boxed(),
        "IOCTL" => (val_of_width(4), bytes(4096)).prop_map(|(r, data)| MockRes::Ioctl { result: r as u32 as i32, data }).boxed(),
        "READDIR" | "READDIRPLUS" => prop_oneof![
            4 => dirents().prop_map(MockRes::Dirents),
            1 => (dirents(), err_strategy()).prop_map(|(mut l, e)| {
                l.truncate(6);
                MockRes::DirentsThenErr(l, e)
            }),
        ]
        .boxed(),
        _ => Just(MockRes::Default).boxed(),
    }
}

const REPLY_OPS: &[&str] = &[
    "LOOKUP", "GETATTR", "SETATTR", "READLINK", "SYMLINK", "MKNOD", "MKDIR", "UNLINK", "RMDIR", "RENAME", "LINK", "OPEN", "READ", "WRITE", "STATFS",
    "RELEASE", "FSYNC", "SETXATTR", "GETXATTR", "LISTXATTR", "REMOVEXATTR", "FLUSH", "OPENDIR", "READDIR", "RELEASEDIR", "FSYNCDIR", "GETLK",
    "SETLK", "SETLKW", "ACCESS", "CREATE", "BMAP", "IOCTL", "POLL", "FALLOCATE", "READDIRPLUS", "RENAME2", "LSEEK", "DESTROY", "SETUPMAPPING",
    "REMOVEMAPPING", "NOTIFY_REPLY",
];

pub fn strategy(tier: Tier) -> BoxedStrategy<Case> {
    let max = tier.pick(65536usize, 1 << 20);
    // weight the ops that carry structured results
    let ops: Vec<(u32, &'static str)> = REPLY_OPS
        .iter()
        .map(|o| {
            let w = match *o {
                "LOOKUP" | "CREATE" | "READDIR" | "READDIRPLUS" | "GETATTR" | "READ" => 5,
                "SYMLINK" | "MKNOD" | "MKDIR" | "LINK" | "SETATTR" | "OPEN" | "STATFS" | "GETXATTR" | "IOCTL" | "GETLK" => 3,
                _ => 1,
            };
            (w, *o)
        })
        .collect();
    let op = proptest::strategy::Union::new_weighted(ops.into_iter().map(|(w, o)| (w, Just(o).boxed())).collect::<Vec<_>>());
    op.prop_flat_map(move |op| {
        let res = prop_oneof![7 => ok_result(op, max), 3 => err_strategy().prop_map(MockRes::Err)];
        (
            Just(op.to_string()),
            res,
            val_of_width(8),
            prop_oneof![Just(0u32), Just(1), Just(23), Just(24), Just(31), Just(32), Just(4096), Just(65536), 0u32..70000],
            prop_oneof![1 => Just(None), 1 => chain_strategy().prop_map(Some)],
            prop_oneof![6 => Just(None), 2 => (0u32..4).prop_map(Some), 1 => (4u32..40).prop_map(Some)],
        )
    })
    .prop_map(|(op, res, unique, size, virtio, minor)| Case { op, res, unique, size, virtio, minor })
    .boxed()
}

fn wire_attr_expect(s: &StatSpec, flags: u32) -> Vec<(&'static str, u64)> {
    vec![
        ("ino", s.ino),
        ("size", s.size as u64),
        ("blocks", s.blocks as u64),
        ("atime", s.atime as u64),
        ("mtime", s.mtime as u64),
        ("ctime", s.ctime as u64),
        ("atimensec", s.atime_nsec as u32 as u64),
        ("mtimensec", s.mtime_nsec as u32 as u64),
        ("ctimensec", s.ctime_nsec as u32 as u64),
        ("mode", s.mode as u64),
        ("nlink", s.nlink as u32 as u64),
        ("uid", s.uid as u64),
        ("gid", s.gid as u64),
        ("rdev", s.rdev as u32 as u64),
        ("blksize", s.blksize as u32 as u64),
        ("flags", flags as u64),
    ]
}

pub fn check_entry_out(out: &mut Outcome, path: &str, buf: &[u8], at: usize, e: &EntrySpec) {
    let mut exp: Vec<(String, u64)> = vec![
        ("nodeid".into(), e.inode),
        ("generation".into(), e.generation),
        ("entry_valid".into(), e.entry_secs),
        ("attr_valid".into(), e.attr_secs),
        ("entry_valid_nsec".into(), e.entry_nsec as u64),
        ("attr_valid_nsec".into(), e.attr_nsec as u64),
    ];
    for (k, v) in wire_attr_expect(&e.attr, e.attr_flags) {
        exp.push((format!("attr.{}", k), v));
    }
    for (k, v) in exp {
        let g = get(buf, at, "fuse_entry_out", &k);
        if g != v {
            out.fail(format!("encode/{}/entry_out.{}", path, k), format!("{}: fuse_entry_out.{} = {:#x}, filesystem returned {:#x}", path, k, g, v));
        }
    }
}

fn request_for(c: &Case) -> Req {
    let mut fields = BTreeMap::new();
    let mut names = vec![];
    let mut payload = vec![];
    let mut items = vec![];
    let d = reqgen::opdef(&c.op);
    for _ in 0..d.names {
        names.push(NameB(b"nm".to_vec()));
    }
    match c.op.as_str() {
        "READ" | "READDIR" | "READDIRPLUS" | "GETXATTR" | "LISTXATTR" => {
            fields.insert("size".to_string(), c.size as u64);
        }
        "IOCTL" => {
            fields.insert("out_size".to_string(), (c.size % 4097) as u64);
        }
        "WRITE" => {
            payload = vec![0x55; (c.size % 5000) as usize];
            fields.insert("size".to_string(), payload.len() as u64);
        }
        "SETXATTR" => {
            payload = b"v".to_vec();
            fields.insert("size".to_string(), 1);
        }
        "REMOVEMAPPING" => {
            items.push((0, 4096));
            fields.insert("count".to_string(), 1);
        }
        _ => {}
    }
    Req {
        op: c.op.clone(),
        hdr: Hdr { opcode: 0, unique: c.unique, nodeid: 1, uid: 0, gid: 0, pid: 1 },
        fields,
        names,
        payload,
        items,
    }
}

fn canonical_errno(k: std::io::ErrorKind) -> Option<Vec<i32>> {
    use std::io::ErrorKind::*;
    match k {
        NotFound => Some(vec![libc::ENOENT]),
        PermissionDenied => Some(vec![libc::EPERM, libc::EACCES]),
        AlreadyExists => Some(vec![libc::EEXIST]),
        WouldBlock => Some(vec![libc::EAGAIN]),
        Interrupted => Some(vec![libc::EINTR]),
        _ => None,
    }
}

pub fn run(c0: &Case) -> Outcome {
    let mut out = Outcome::default();
    // destroy() cannot return an error: the script does not apply
    let mut c1 = c0.clone();
    if c1.op == "DESTROY" {
        c1.res = MockRes::Default;
    }
    let c = &c1;
    let op = c.op.as_str();
    let fs = Arc::new(MockFs::new(c.res.clone()));
    let srv = Server::new(fs.clone());
    if let Some(m) = c.minor {
        let init = Req {
            op: "INIT".into(),
            hdr: Hdr { opcode: 0, unique: 1, nodeid: 0, uid: 0, gid: 0, pid: 0 },
            fields: [("major".to_string(), 7u64), ("minor".to_string(), m as u64)].into_iter().collect(),
            names: vec![],
            payload: vec![],
            items: vec![],
        };
        // the scripted result also answers init(); use a separate plain server state: init must not fail the case
        let _ = transport::serve_fusedev(&srv, &init.encode(), 256, false);
        fs.log.lock().unwrap().clear();
    }
    let req = request_for(c);
    let bytes = req.encode();
    let room = 16 + req.reply_room() + 64;
    let d = match &c.virtio {
        None => transport::serve_fusedev(&srv, &bytes, room, true),
        Some(spec) => {
            let mut s = spec.clone();
            s.fit_writable(room.max(s.wtotal()));
            transport::serve_virtio(&srv, &bytes, &s, true).0
        }
    };
    out.class(format!("op:{}", op));
    let is_err = matches!(c.res, MockRes::Err(_)) || fs.dir_returns.lock().unwrap().contains(&crate::mockfs::DIR_FAILED);
    out.class(if is_err { "result:err" } else { "result:ok" });
    out.nontrivial = !matches!(c.res, MockRes::Default);
    out.fails.extend(d.fails);
    // Did the init during minor negotiation consume an Err script? (init returns Err too) – then vers unchanged; fine.
    let called = fs.calls().iter().any(|v| v["m"] != "id_remap");
    if op == "NOTIFY_REPLY" {
        // answer only on error
        if is_err {
            if d.replies.len() != 1 {
                out.fail("encode/NOTIFY_REPLY/reply-count", format!("{} replies", d.replies.len()));
            }
        } else if !d.replies.is_empty() {
            out.fail("encode/NOTIFY_REPLY/unexpected-reply", "reply on success");
        }
        return out;
    }
    if d.replies.len() != 1 {
        out.fail(format!("encode/{}/reply-count:{}", op, d.replies.len()), format!("expected one reply, got {} (ret {:?}, called {})", d.replies.len(), d.ret, called));
        return out;
    }
    let rep = &d.replies[0];
    let Some(r) = codec::parse_reply(rep) else {
        out.fail(format!("encode/{}/short-reply", op), format!("{} bytes", rep.len()));
        return out;
    };
    if r.len as usize != rep.len() {
        out.fail(format!("encode/{}/len", op), format!("header len {} but {} bytes emitted", r.len, rep.len()));
    }
    if r.unique != c.unique {
        out.fail(format!("encode/{}/unique", op), format!("unique {:#x} != {:#x}", r.unique, c.unique));
    }
    let dir_failed = fs.dir_returns.lock().unwrap().contains(&crate::mockfs::DIR_FAILED);
    match &c.res {
        MockRes::DirentsThenErr(_, e) if !dir_failed => {
            let _ = e;
            out.class("dir:filled-before-error");
        }
        MockRes::Err(e) | MockRes::DirentsThenErr(_, e) => {
            if dir_failed {
                out.class("dir:error-after-entries");
            }
            match e {
                ErrSpec::Os(n) => {
                    if r.error != -*n {
                        out.fail(format!("encode/{}/errno", op), format!("errno {} sent as {}", n, r.error));
                    }
                }
                ErrSpec::Kind(k) => {
                    let kind = KINDS[*k as usize % KINDS.len()];
                    out.class("err:kind");
                    match canonical_errno(kind) {
                        Some(l) => {
                            if !l.contains(&-r.error) {
                                out.fail(format!("encode/{}/errkind", op), format!("{:?} sent as {}", kind, r.error));
                            }
                        }
                        None => {
                            if !(r.error >= -4095 && r.error <= -1) {
                                out.fail(format!("encode/{}/errkind-range", op), format!("{:?} sent as {}", kind, r.error));
                            }
                        }
                    }
                }
            }
            if !r.body.is_empty() {
                out.fail(format!("encode/{}/err-body", op), "error reply carries a body");
            }
            return out;
        }
        _ => {}
    }
    // negative lookup rule before 7.4
    if op == "LOOKUP" {
        if let (Some(m), MockRes::Entry(e)) = (c.minor, &c.res) {
            if m < 4 && e.inode == 0 {
                out.class("lookup:negative-pre-7.4");
                if r.error != -libc::ENOENT {
                    out.fail("encode/LOOKUP/negative-entry", format!("minor {} inode 0: error {}", m, r.error));
                }
                return out;
            }
        }
    }
    if r.error != 0 {
        out.fail(format!("encode/{}/spurious-error", op), format!("filesystem returned Ok, reply error {}", r.error));
        return out;
    }
    let b = &r.body;
    let want_len = |out: &mut Outcome, n: usize| -> bool {
        if b.len() != n {
            out.fail(format!("encode/{}/body-len", op), format!("body {} bytes, expected {}", b.len(), n));
            false
        } else {
            true
        }
    };
    match (op, &c.res) {
        ("LOOKUP" | "SYMLINK" | "MKNOD" | "MKDIR" | "LINK", MockRes::Entry(e)) => {
            if want_len(&mut out, ssize("fuse_entry_out")) {
                check_entry_out(&mut out, op, b, 0, e);
            }
        }
        ("GETATTR" | "SETATTR", MockRes::Attr(s, secs, nsec)) => {
            if want_len(&mut out, ssize("fuse_attr_out")) {
                let mut exp: Vec<(String, u64)> = vec![("attr_valid".into(), *secs), ("attr_valid_nsec".into(), *nsec as u64)];
                for (k, v) in wire_attr_expect(s, 0) {
                    exp.push((format!("attr.{}", k), v));
                }
                for (k, v) in exp {
                    let g = get(b, 0, "fuse_attr_out", &k);
                    if g != v {
                        out.fail(format!("encode/{}/attr_out.{}", op, k), format!("fuse_attr_out.{} = {:#x}, expected {:#x}", k, g, v));
                    }
                }
            }
        }
        ("READLINK", MockRes::Data(dta)) => {
            if b != dta {
                out.fail("encode/READLINK/data", "link target bytes differ");
            }
        }
        ("OPEN" | "OPENDIR", MockRes::Open { fh, opts, passthrough }) => {
            if want_len(&mut out, ssize("fuse_open_out")) {
                let e = [
                    ("fh", fh.unwrap_or(0)),
                    ("open_flags", *opts as u64),
                    ("backing_id", if op == "OPEN" { passthrough.unwrap_or(0) as u64 } else { 0 }),
                ];
                for (k, v) in e {
                    let g = get(b, 0, "fuse_open_out", k);
                    if g != v {
                        out.fail(format!("encode/{}/open_out.{}", op, k), format!("{} = {:#x}, expected {:#x}", k, g, v));
                    }
                }
            }
        }
        ("CREATE", MockRes::Create { entry, fh, opts, passthrough }) => {
            if want_len(&mut out, ssize("fuse_entry_out") + ssize("fuse_open_out")) {
                check_entry_out(&mut out, op, b, 0, entry);
                let at = ssize("fuse_entry_out");
                let e = [("fh", fh.unwrap_or(0)), ("open_flags", *opts as u64), ("backing_id", passthrough.unwrap_or(0) as u64)];
                for (k, v) in e {
                    let g = get(b, at, "fuse_open_out", k);
                    if g != v {
                        out.fail(format!("encode/CREATE/open_out.{}", k), format!("{} = {:#x}, expected {:#x}", k, g, v));
                    }
                }
            }
        }
        ("READ", MockRes::Read { .. }) => {
            let produced = fs.produced.lock().unwrap().clone();
            if *b != produced {
                out.fail("encode/READ/data", format!("reply carries {} bytes, filesystem produced {}", b.len(), produced.len()));
            }
            if b.len() > c.size as usize {
                out.fail("encode/READ/oversize", "more data than asked");
            }
        }
        ("WRITE", MockRes::Written(n)) => {
            if want_len(&mut out, ssize("fuse_write_out")) {
                let sz = (c.size % 5000) as u32;
                let exp = (*n).min(sz);
                if get(b, 0, "fuse_write_out", "size") != exp as u64 {
                    out.fail("encode/WRITE/size", format!("size {} expected {}", get(b, 0, "fuse_write_out", "size"), exp));
                }
            }
        }
        ("STATFS", MockRes::Statfs(s)) => {
            if want_len(&mut out, ssize("fuse_statfs_out")) {
                let e = [
                    ("st.blocks", s.blocks),
                    ("st.bfree", s.bfree),
                    ("st.bavail", s.bavail),
                    ("st.files", s.files),
                    ("st.ffree", s.ffree),
                    ("st.bsize", s.bsize as u32 as u64),
                    ("st.namelen", s.namemax as u32 as u64),
                    ("st.frsize", s.frsize as u32 as u64),
                ];
                for (k, v) in e {
                    let g = get(b, 0, "fuse_statfs_out", k);
                    if g != v {
                        out.fail(format!("encode/STATFS/{}", k), format!("{} = {:#x}, expected {:#x}", k, g, v));
                    }
                }
            }
        }
        ("GETXATTR" | "LISTXATTR", MockRes::Data(_)) => {
            let dta = fs.produced.lock().unwrap().clone();
            if *b != dta {
                out.fail(format!("encode/{}/data", op), "xattr bytes differ");
            }
        }
        ("GETXATTR" | "LISTXATTR", MockRes::Count(n)) => {
            if want_len(&mut out, ssize("fuse_getxattr_out")) && get(b, 0, "fuse_getxattr_out", "size") != *n as u64 {
                out.fail(format!("encode/{}/count", op), "size differs");
            }
        }
        ("GETLK", MockRes::Lock { start, end, type_, pid }) => {
            if want_len(&mut out, ssize("fuse_lk_out")) {
                let e = [("lk.start", *start), ("lk.end", *end), ("lk.type", *type_ as u64), ("lk.pid", *pid as u64)];
                for (k, v) in e {
                    if get(b, 0, "fuse_lk_out", k) != v {
                        out.fail(format!("encode/GETLK/{}", k), format!("{} differs", k));
                    }
                }
            }
        }
        ("BMAP", MockRes::U64(v)) => {
            if want_len(&mut out, ssize("fuse_bmap_out")) && get(b, 0, "fuse_bmap_out", "block") != *v {
                out.fail("encode/BMAP/block", "block differs");
            }
        }
        ("LSEEK", MockRes::U64(v)) => {
            if want_len(&mut out, ssize("fuse_lseek_out")) && get(b, 0, "fuse_lseek_out", "offset") != *v {
                out.fail("encode/LSEEK/offset", "offset differs");
            }
        }
        ("POLL", MockRes::U32(v)) => {
            if want_len(&mut out, ssize("fuse_poll_out")) && get(b, 0, "fuse_poll_out", "revents") != *v as u64 {
                out.fail("encode/POLL/revents", "revents differs");
            }
        }
        ("IOCTL", MockRes::Ioctl { result, .. }) => {
            let data = fs.produced.lock().unwrap().clone();
            let hs = ssize("fuse_ioctl_out");
            if b.len() < hs {
                out.fail("encode/IOCTL/body-len", "short ioctl reply");
            } else {
                if get_signed(b, 0, "fuse_ioctl_out", "result") != *result as i64 {
                    out.fail("encode/IOCTL/result", "result differs");
                }
                if b[hs..] != data[..] {
                    out.fail("encode/IOCTL/data", "ioctl output bytes differ");
                }
            }
        }
        ("READDIR" | "READDIRPLUS", MockRes::Dirents(list) | MockRes::DirentsThenErr(list, _)) => {
            check_dir(&mut out, op, b, list, c.size as usize, &fs.dir_returns.lock().unwrap());
        }
        (_, MockRes::Default) | (_, _) => {
            // unit results: header only (ops with structured defaults are checked for length only)
            let unit = matches!(
                op,
                "UNLINK" | "RMDIR" | "RENAME" | "RENAME2" | "RELEASE" | "FSYNC" | "SETXATTR" | "REMOVEXATTR" | "FLUSH" | "RELEASEDIR" | "FSYNCDIR"
                    | "SETLK" | "SETLKW" | "ACCESS" | "FALLOCATE" | "DESTROY" | "SETUPMAPPING" | "REMOVEMAPPING"
            );
            if unit && !b.is_empty() {
                out.fail(format!("encode/{}/unit-body", op), format!("{} body bytes on a unit reply", b.len()));
            }
        }
    }
    out
}

fn check_dir(out: &mut Outcome, op: &str, b: &[u8], list: &[DirentSpec], size: usize, returns: &[i64]) {
    let plus = op == "READDIRPLUS";
    let esz = if plus { ssize("fuse_entry_out") } else { 0 };
    let dsz = ssize("fuse_dirent");
    if b.len() > size {
        out.fail(format!("encode/{}/oversize", op), format!("payload {} > requested {}", b.len(), size));
    }
    // model: longest prefix that fits
    let mut used = 0usize;
    let mut n_exp = 0usize;
    for d in list {
        let rec = esz + ((dsz + d.name.len() + 7) & !7);
        if size - used.min(size) < rec {
            break;
        }
        used += rec;
        n_exp += 1;
    }
    out.class(if n_exp < list.len() { "dir:truncated" } else { "dir:complete" });
    let mut pos = 0usize;
    let mut i = 0usize;
    while pos < b.len() {
        if i >= list.len() {
            out.fail(format!("encode/{}/extra-record", op), "more records than the filesystem supplied");
            return;
        }
        if b.len() - pos < esz + dsz {
            out.fail(format!("encode/{}/partial-record", op), format!("{} trailing bytes", b.len() - pos));
            return;
        }
        let d = &list[i];
        out.class(format!("dirent:namelen%8={}", d.name.len() % 8));
        if plus {
            check_entry_out(out, op, b, pos, &d.entry);
        }
        let dp = pos + esz;
        let namelen = get(b, dp, "fuse_dirent", "namelen") as usize;
        let e = [("ino", d.ino), ("off", d.offset), ("namelen", d.name.len() as u64), ("type", d.type_ as u64)];
        for (k, v) in e {
            if get(b, dp, "fuse_dirent", k) != v {
                out.fail(format!("encode/{}/dirent.{}", op, k), format!("record {}: {} = {:#x} expected {:#x}", i, k, get(b, dp, "fuse_dirent", k), v));
                return;
            }
        }
        let rec = esz + ((dsz + namelen + 7) & !7);
        if pos + rec > b.len() {
            out.fail(format!("encode/{}/record-overrun", op), format!("record {} of {} bytes exceeds payload (namelen%8={})", i, rec, namelen % 8));
            return;
        }
        if b[dp + dsz..dp + dsz + namelen] != d.name[..] {
            out.fail(format!("encode/{}/dirent.name", op), format!("record {} name differs", i));
        }
        if b[dp + dsz + namelen..pos + rec].iter().any(|x| *x != 0) {
            out.fail(format!("encode/{}/dirent.padding", op), "non-zero padding");
        }
        if i < returns.len() && returns[i] != rec as i64 {
            out.fail(format!("encode/{}/callback-return", op), format!("callback returned {} for a {}-byte record", returns[i], rec));
        }
        pos += rec;
        i += 1;
    }
    if i != n_exp {
        out.fail(
            format!("encode/{}/record-count", op),
            format!("{} records delivered, {} fit in {} bytes ({} supplied)", i, n_exp, size, list.len()),
        );
    }
    // the records delivered are exactly those for which the callback returned non-zero
    let nonzero = returns.iter().filter(|r| **r > 0).count();
    if nonzero != i {
        out.fail(format!("encode/{}/callback-accepted", op), format!("callback accepted {} entries, {} delivered", nonzero, i));
    }
}

fn notify_strategy() -> BoxedStrategy<Notify> {
    prop_oneof![
        3 => (val_of_width(8), reqgen::name_strategy(300)).prop_map(|(parent, n)| Notify::InvalEntry { parent, name: NameB(n.into_iter().filter(|b| *b != 0).collect()) }),
        3 => (val_of_width(8), val_of_width(8), val_of_width(8)).prop_map(|(ino, off, len)| Notify::InvalInode { ino, off, len }),
        1 => Just(Notify::Resend),
    ]
    .boxed()
}

pub fn run_notify(n: &Notify) -> Outcome {
    let mut out = Outcome::default();
    out.nontrivial = true;
    let fs = Arc::new(MockFs::new(MockRes::Default));
    let srv = Server::new(fs);
    let sp = transport::SockPair::new();
    let mut buf = vec![0u8; 8192];
    let w = FuseDevWriter::<()>::new(sp.tx, &mut buf).unwrap();
    let (code, ret): (u64, Result<usize, String>) = match n {
        Notify::InvalEntry { parent, name } => {
            let cs = std::ffi::CString::new(name.0.clone()).unwrap();
            (c("FUSE_NOTIFY_INVAL_ENTRY"), srv.notify_inval_entry(w, *parent, &cs).map_err(|e| format!("{:?}", e)))
        }
        Notify::InvalInode { ino, off, len } => (c("FUSE_NOTIFY_INVAL_INODE"), srv.notify_inval_inode(w, *ino, *off, *len).map_err(|e| format!("{:?}", e))),
        Notify::Resend => (c("FUSE_NOTIFY_RESEND"), srv.notify_resend(w).map(|_| 16).map_err(|e| format!("{:?}", e))),
    };
    out.class(format!("notify:{}", code));
    let dg = sp.drain();
    if ret.is_err() || dg.len() != 1 {
        out.fail(format!("notify/{}/datagrams", code), format!("ret {:?}, {} datagrams", ret, dg.len()));
        return out;
    }
    let m = &dg[0];
    let Some(r) = codec::parse_reply(m) else {
        out.fail(format!("notify/{}/short", code), "short message");
        return out;
    };
    if r.len as usize != m.len() {
        out.fail(format!("notify/{}/len", code), format!("len {} bytes {}", r.len, m.len()));
    }
    if r.unique != 0 {
        out.fail(format!("notify/{}/unique", code), "unique != 0");
    }
    if r.error as i64 != code as i64 {
        out.fail(format!("notify/{}/code", code), format!("code {}", r.error));
    }
    match n {
        Notify::InvalEntry { parent, name } => {
            let hs = ssize("fuse_notify_inval_entry_out");
            if r.body.len() != hs + name.0.len() + 1 {
                out.fail("notify/entry/size", "wrong size");
            } else {
                if get(&r.body, 0, "fuse_notify_inval_entry_out", "parent") != *parent {
                    out.fail("notify/entry/parent", "parent differs");
                }
                if get(&r.body, 0, "fuse_notify_inval_entry_out", "namelen") != name.0.len() as u64 {
                    out.fail("notify/entry/namelen", "namelen differs");
                }
                if r.body[hs..hs + name.0.len()] != name.0[..] || r.body[hs + name.0.len()] != 0 {
                    out.fail("notify/entry/name", "name differs");
                }
            }
        }
        Notify::InvalInode { ino, off, len } => {
            if r.body.len() != ssize("fuse_notify_inval_inode_out") {
                out.fail("notify/inode/size", "wrong size");
            } else {
                let e = [("ino", *ino), ("off", *off), ("len", *len)];
                for (k, v) in e {
                    if get(&r.body, 0, "fuse_notify_inval_inode_out", k) != v {
                        out.fail(format!("notify/inode/{}", k), "field differs");
                    }
                }
            }
        }
        Notify::Resend => {
            if !r.body.is_empty() {
                out.fail("notify/resend/size", "body present");
            }
        }
    }
    out
}

impl Prop for C03 {
    fn id(&self) -> &'static str {
        "C03"
    }
    fn meta(&self) -> Meta {
        Meta {
            rule: "opcode x scripted filesystem result (entries/attrs with every stat field at boundary or random values, handles, options, payloads via write/write_from/both, xattr value|count, locks, statfs, dirent lists 0..400 with names 1..255 and requested sizes 0..70000, every errno 1..133 + boundary, 20 non-OS error kinds) x transport x negotiated minor; plus notification messages; non-trivial = a scripted (non-default) result; distinct = distinct serialized case",
            assumptions: vec![
                "reply decoded with the kernel's struct layouts (abi/probe.c); fuse_open_out.backing_id per upstream 7.40 (supplement.json)".into(),
                "non-OS error kinds: canonical errno required only for NotFound/PermissionDenied/AlreadyExists/WouldBlock/Interrupted, any errno in [1,4095] otherwise".into(),
                "reply layouts older than protocol 7.9 are not implemented by the crate and not claimed, except the pre-7.4 negative lookup rule".into(),
            ],
            ..Meta::default()
        }
    }
    fn worker(&self, w: &WorkerCtx) -> WorkerResult {
        let cases = w.share(w.tier.pick(50_000, 1_200_000));
        let mut r = drive(w, "C03", "reply", cases, strategy(w.tier), run);
        let n = w.share(w.tier.pick(4_000, 100_000));
        r.merge(drive(w, "C03", "notify", n, notify_strategy(), run_notify));
        r
    }
    fn replay(&self, kind: &str, case: &Value) -> Vec<Fail> {
        if kind == "notify" {
            let c: Notify = serde_json::from_value(case.clone()).expect("case");
            run_notify(&c).fails
        } else {
            let c: Case = serde_json::from_value(case.clone()).expect("case");
            run(&c).fails
        }
    }
}
