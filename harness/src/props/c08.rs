//! C08 — an inode stays valid exactly as long as the client holds lookup references to it.
use crate::engine::*;
use crate::jail as sys;
use crate::props::c05::{self, apply, Case, POp};
use crate::ptdrv::*;
use proptest::prelude::*;
use serde_json::Value;

fn op_strategy() -> BoxedStrategy<POp> {
    prop_oneof![
        10 => (any::<u16>(), 0u8..6).prop_map(|(p, name)| POp::Lookup { p, name }),
        4 => (any::<u16>(), 1u8..4).prop_map(|(n, count)| POp::Forget { n, count }),
        6 => (any::<u16>(), any::<u8>()).prop_map(|(n, extra)| POp::ForgetAll { n, extra }),
        2 => proptest::collection::vec((any::<u16>(), 1u8..3), 1..5).prop_map(|items| POp::BatchForget { items }),
        3 => (any::<u16>(), 0u8..6, prop_oneof![Just(libc::O_RDWR as u32), Just((libc::O_RDWR | libc::O_EXCL) as u32)], Just(0o644u32), Just(0u32), 0u8..3)
            .prop_map(|(p, name, flags, mode, umask, caller)| POp::Create { p, name, flags, mode, umask, caller }),
        2 => (any::<u16>(), 0u8..6, Just(0o777u32), Just(0u32), 0u8..3).prop_map(|(p, name, mode, umask, caller)| POp::Mkdir { p, name, mode, umask, caller }),
        1 => (any::<u16>(), 0u8..6, 0u8..3, Just(0o644u32), Just(0u32), 0u8..3).prop_map(|(p, name, kind, mode, umask, caller)| POp::Mknod { p, name, kind, mode, umask, caller }),
        1 => (any::<u16>(), 0u8..6, any::<u8>(), 0u8..3).prop_map(|(p, name, target, caller)| POp::Symlink { p, name, target, caller }),
        3 => (any::<u16>(), any::<u16>(), 0u8..6).prop_map(|(n, p, name)| POp::Link { n, p, name }),
        5 => (any::<u16>(), 0u8..6).prop_map(|(p, name)| POp::Unlink { p, name }),
        2 => (any::<u16>(), 0u8..6).prop_map(|(p, name)| POp::Rmdir { p, name }),
        4 => (any::<u16>(), 0u8..6, any::<u16>(), 0u8..6, 0u8..4).prop_map(|(p1, n1, p2, n2, flags)| POp::Rename { p1, n1, p2, n2, flags }),
        4 => (any::<u16>(), prop_oneof![Just(true), Just(false)], prop_oneof![Just(300u32), Just(512), Just(700), Just(4096)]).prop_map(|(n, plus, size)| POp::Listdir { n, plus, size }),
        3 => (any::<u16>(), 0u8..6, 0u8..6).prop_map(|(p, name, newname)| POp::UnlinkCreate { p, name, newname }),
        2 => (any::<u16>(), proptest::option::of(any::<u16>())).prop_map(|(n, h)| POp::Getattr { n, h }),
        1 => (any::<u16>(), Just(libc::O_RDWR as u32)).prop_map(|(n, flags)| POp::Open { n, flags }),
        1 => any::<u16>().prop_map(|h| POp::Release { h }),
    ]
    .boxed()
}

fn strategy() -> BoxedStrategy<Case> {
    (any::<bool>(), any::<bool>(), any::<bool>(), c05::tree_strategy(), proptest::collection::vec(op_strategy(), 1..40))
        .prop_map(|(file_handles, use_host_ino, no_opendir, tree, ops)| Case { cfg: PtCfg { file_handles, use_host_ino, no_opendir, ..PtCfg::default() }, tree, ops })
        .boxed()
}

pub fn run(cs: &Case) -> Outcome {
    let mut out = Outcome::default();
    let mut went_to_zero = false;
    let mut over_forget = false;
    let mut max_count = 0u64;
    let pt = c05::run_world(cs, &mut out, |pt, out| {
        for (n, node) in &pt.nodes {
            if *n != 1 {
                max_count = max_count.max(node.count);
            }
        }
        if !pt.forgotten.is_empty() {
            went_to_zero = true;
        }
        if out.fails.is_empty() {
            pt.probe_validity(out);
        }
    });
    if let Some(mut pt) = pt {
        // the root can never be forgotten
        if out.fails.is_empty() {
            pt.forget(&mut out, 1, u64::MAX);
            over_forget = true;
            let rep = crate::vfsdrv::call(&pt.srv, &crate::vfsdrv::mkreq("GETATTR", 1, 0, 0, &[], &[], &[]));
            if rep.error != 0 {
                out.fail("ref/root-forgotten", format!("after FORGET(root, max) GETATTR(root) answers {}", rep.error));
            }
        }
        out.nontrivial = went_to_zero && max_count >= 2;
        if went_to_zero {
            out.class("ref:count-reached-zero");
        }
        if max_count >= 2 {
            out.class("ref:count>=2");
        }
        if cs.cfg.file_handles {
            out.class("cfg:file_handles");
        }
        if cs.cfg.use_host_ino {
            out.class("cfg:use_host_ino");
        }
        let _ = over_forget;
    }
    out.fails.retain(|f| ["ref/", "harness/", "pt/", "panic/"].iter().any(|p| f.sig.starts_with(p)));
    out
}

pub struct C08;

impl Prop for C08 {
    fn id(&self) -> &'static str {
        "C08"
    }
    fn meta(&self) -> Meta {
        Meta {
            rule: "histories (1..40 ops) weighted to reference counting: lookup through several names/hard links/after rename, create, mkdir, mknod, symlink, link, readdirplus with small buffers (partial delivery, resumed), plain readdir, forget(n) with n in {1..3, held, held+k, u64::MAX, held-1}, batch_forget, unlink/rmdir of referenced objects, create-after-unlink (host inode reuse), re-lookup after full forget; x {inode_file_handles} x {use_host_ino} x {no_opendir}; model count[file] = entries returned - forgotten (saturating, root exempt); after EVERY step every inode number ever seen is probed: GETATTR succeeds and describes the modelled host file iff count > 0, EBADF otherwise; one number <-> one host file while valid; same number after re-lookup; non-trivial = some count reached >= 2 and some count reached zero; distinct = distinct serialized case",
            assumptions: vec![
                "host file identity = (st_dev, st_ino) of the mirror object in the shadow tree, pinned by an O_PATH descriptor while the model still knows the file".into(),
                "with inode_file_handles, requests on an unlinked-but-referenced inode may answer ESTALE; only 'never another file' is required there".into(),
            ],
            ..Meta::default()
        }
    }
    fn worker(&self, w: &WorkerCtx) -> WorkerResult {
        sys::enter();
        let n = w.share(w.tier.pick(30_000, 1_000_000));
        drive(w, "C08", "history", n, strategy(), run)
    }
    fn replay(&self, _kind: &str, case: &Value) -> Vec<Fail> {
        sys::enter();
        let c: Case = serde_json::from_value(case.clone()).expect("case");
        run(&c).fails
    }
}
