//! C04 — transport readers/writers move every byte exactly once, in order, within bounds.
//! The same interpreter also yields the written ranges C17 needs.
use crate::engine::*;
use crate::mockfs::memfd_with;
use crate::props::c02::chain_strategy;
use crate::transport::{self, canary, ChainSpec, Gm, SockPair, VirtioEnv, CANARY_PAD};
use fuse_backend_rs::abi::fuse_abi as abi;
use fuse_backend_rs::file_buf::FileVolatileSlice;
use fuse_backend_rs::file_traits::FileReadWriteVolatile;
use fuse_backend_rs::transport::{FuseBuf, FuseDevWriter, Reader, VirtioFsWriter, Writer};
use proptest::prelude::*;
use serde::{Deserialize, Serialize};
use serde_json::Value;
use std::io::{IoSlice, Read, Write};
use std::os::unix::fs::FileExt;
use vm_memory::bitmap::BitmapSlice;
use vm_memory::{ByteValued, Bytes};

#[derive(Clone, Debug, Serialize, Deserialize)]
pub enum Rel {
    /// fraction (x/65536) of the space remaining
    Frac(u16),
    /// exactly the space remaining
    Fit,
    /// remaining + k
    Over(u8),
    /// absolute small number
    Abs(u16),
}
impl Rel {
    fn of(&self, avail: usize) -> usize {
        match self {
            Rel::Frac(f) => pick_idx(*f, avail + 1),
            Rel::Fit => avail,
            Rel::Over(k) => avail + 1 + *k as usize,
            Rel::Abs(n) => *n as usize,
        }
    }
}

#[derive(Clone, Debug, Serialize, Deserialize)]
pub enum ROp {
    Read(u8, Rel),
    ReadExact(u8, Rel),
    ReadObj(u8, u8),
    ReadTo(u8, Rel),
    ReadToAt(u8, Rel, u16),
    ReadExactTo(u8, Rel),
    Split(u8, Rel),
    Counters(u8),
}

#[derive(Clone, Debug, Serialize, Deserialize)]
pub enum WOp {
    Write(u8, Rel, u32),
    WriteAll(u8, Rel, u32),
    WriteVectored(u8, Vec<Rel>, u32),
    WriteObj(u8, u8, u32),
    /// (writer, count, file length, seed)
    WriteFrom(u8, Rel, Rel, u32),
    /// (writer, count, file length, file offset frac, seed)
    WriteFromAt(u8, Rel, Rel, u16, u32),
    WriteAllFrom(u8, Rel, Rel, u32),
    /// split position: Rel over the space remaining (from the cursor)
    Split(u8, Rel),
    /// fusedev only: split inside the bytes already written (frac of written)
    SplitInside(u8, u16),
    Counters(u8),
}

#[derive(Clone, Debug, Serialize, Deserialize)]
pub enum Case {
    Reader { virtio: Option<ChainSpec>, total: u32, seed: u32, ops: Vec<ROp> },
    /// fusedev: `cap` bytes; the writer is split first at `first_split` unless `unbuffered_single` (one write only)
    Writer { virtio: Option<ChainSpec>, cap: u32, ops: Vec<WOp>, commit: (u8, Option<u8>) },
}

pub fn data(seed: u32, n: usize) -> Vec<u8> {
    let mut v = Vec::with_capacity(n);
    let mut x = mix(seed as u64, 0x1234);
    for i in 0..n {
        if i % 8 == 0 {
            x = mix(x, i as u64);
        }
        v.push((x >> ((i % 8) * 8)) as u8 | 1);
    }
    v
}

// ------------------------------------------------------------------ reader

struct RModel {
    start: usize,
    end: usize,
    cursor: usize,
}

fn crosses(segs: &[usize], a: usize, b: usize) -> bool {
    // segs = cumulative ends of segments in flat coordinates
    segs.iter().any(|e| *e > a && *e < b)
}

fn robj<S: BitmapSlice>(r: &mut Reader<'_, S>, kind: u8) -> (usize, std::io::Result<Vec<u8>>) {
    macro_rules! ro {
        ($t:ty) => {{
            let n = std::mem::size_of::<$t>();
            (n, r.read_obj::<$t>().map(|v| v.as_slice().to_vec()))
        }};
    }
    match kind % 10 {
        0 => ro!(u8),
        1 => ro!(u16),
        2 => ro!(u32),
        3 => ro!(u64),
        4 => ro!(abi::ForgetOne),
        5 => ro!(abi::FileLock),
        6 => ro!(abi::InHeader),
        7 => ro!(abi::InitIn2),
        8 => ro!(abi::Attr),
        _ => ro!(abi::EntryOut),
    }
}

fn run_reader_ops<S: BitmapSlice>(out: &mut Outcome, req: &[u8], segs: &[usize], first: Reader<'_, S>, ops: &[ROp]) {
    let mut readers = vec![first];
    let mut models = vec![RModel { start: 0, end: req.len(), cursor: 0 }];
    let mut split_after_partial = false;
    let mut crossed = false;
    let mut over = false;
    for (i, op) in ops.iter().enumerate() {
        let ri = match op {
            ROp::Read(r, _) | ROp::ReadExact(r, _) | ROp::ReadObj(r, _) | ROp::ReadTo(r, _) | ROp::ReadToAt(r, _, _) | ROp::ReadExactTo(r, _) | ROp::Split(r, _) | ROp::Counters(r) => {
                pick_idx((*r as u16) << 8, readers.len())
            }
        };
        let avail = models[ri].end - models[ri].cursor;
        let cur = models[ri].cursor;
        let tag = |s: &str| format!("reader/{}", s);
        match op {
            ROp::Read(_, rel) => {
                let n = rel.of(avail).min(1 << 21);
                let mut buf = vec![0xEEu8; n + 8];
                match readers[ri].read(&mut buf[..n]) {
                    Ok(k) => {
                        if k > n || k > avail {
                            out.fail(tag("read/too-many"), format!("op {}: read({}) returned {} with {} available", i, n, k, avail));
                            return;
                        }
                        if n > 0 && avail > 0 && k == 0 {
                            out.fail(tag("read/zero"), format!("op {}: read({}) returned 0 with {} available", i, n, avail));
                        }
                        if buf[..k] != req[cur..cur + k] {
                            out.fail(tag("read/bytes"), format!("op {}: bytes differ from request[{}..{}]", i, cur, cur + k));
                        }
                        if buf[n..].iter().any(|b| *b != 0xEE) {
                            out.fail(tag("read/overrun"), "wrote beyond the destination slice");
                        }
                        crossed |= crosses(segs, cur, cur + k);
                        models[ri].cursor += k;
                    }
                    Err(e) => out.fail(tag("read/err"), format!("op {}: read({}) failed: {}", i, n, e)),
                }
            }
            ROp::ReadExact(_, rel) => {
                let n = rel.of(avail).min(1 << 21);
                let mut buf = vec![0u8; n];
                let r = readers[ri].read_exact(&mut buf);
                if n <= avail {
                    match r {
                        Ok(()) => {
                            if buf[..] != req[cur..cur + n] {
                                out.fail(tag("read_exact/bytes"), format!("op {}: bytes differ", i));
                            }
                            crossed |= crosses(segs, cur, cur + n);
                            models[ri].cursor += n;
                        }
                        Err(e) => out.fail(tag("read_exact/err"), format!("op {}: read_exact({}) failed with {} available: {}", i, n, avail, e)),
                    }
                } else {
                    over = true;
                    if r.is_ok() {
                        out.fail(tag("read_exact/over-ok"), format!("op {}: read_exact({}) succeeded with {} available", i, n, avail));
                        return;
                    }
                    // state after a failed read_exact is unspecified; resynchronise on the counter
                    let c = readers[ri].bytes_read();
                    models[ri].cursor = (models[ri].start + c).min(models[ri].end);
                }
            }
            ROp::ReadObj(_, kind) => {
                let (n, r) = robj(&mut readers[ri], *kind);
                if n <= avail {
                    match r {
                        Ok(v) => {
                            if v[..] != req[cur..cur + n] {
                                out.fail(tag("read_obj/bytes"), format!("op {}: object bytes differ", i));
                            }
                            crossed |= crosses(segs, cur, cur + n);
                            models[ri].cursor += n;
                        }
                        Err(e) => out.fail(tag("read_obj/err"), format!("op {}: read_obj({}) failed with {} available: {}", i, n, avail, e)),
                    }
                } else {
                    over = true;
                    if r.is_ok() {
                        out.fail(tag("read_obj/over-ok"), format!("op {}: read_obj({}) succeeded with {} available", i, n, avail));
                        return;
                    }
                    let c = readers[ri].bytes_read();
                    models[ri].cursor = (models[ri].start + c).min(models[ri].end);
                }
            }
            ROp::ReadTo(_, rel) | ROp::ReadToAt(_, rel, _) => {
                let n = rel.of(avail).min(1 << 21);
                let mut f = memfd_with(&[]);
                let off = if let ROp::ReadToAt(_, _, o) = op { *o as u64 } else { 0 };
                let r = if let ROp::ReadToAt(..) = op { readers[ri].read_to_at(&mut f, n, off) } else { readers[ri].read_to(&mut f, n) };
                match r {
                    Ok(k) => {
                        if k > n || k > avail {
                            out.fail(tag("read_to/too-many"), format!("op {}: read_to({}) returned {} with {} available", i, n, k, avail));
                            return;
                        }
                        if n > 0 && avail > 0 && k == 0 {
                            out.fail(tag("read_to/zero"), format!("op {}: returned 0", i));
                        }
                        let mut got = vec![0u8; k];
                        let _ = f.read_exact_at(&mut got, off);
                        let flen = f.metadata().map(|m| m.len()).unwrap_or(0);
                        if got[..] != req[cur..cur + k] {
                            out.fail(tag("read_to/bytes"), format!("op {}: file content differs from request[{}..{}]", i, cur, cur + k));
                        }
                        if k > 0 && flen != off + k as u64 {
                            out.fail(tag("read_to/file-len"), format!("op {}: file length {} expected {}", i, flen, off + k as u64));
                        }
                        crossed |= crosses(segs, cur, cur + k);
                        models[ri].cursor += k;
                    }
                    Err(e) => out.fail(tag("read_to/err"), format!("op {}: failed: {}", i, e)),
                }
            }
            ROp::ReadExactTo(_, rel) => {
                let n = rel.of(avail).min(1 << 21);
                let mut f = memfd_with(&[]);
                let r = readers[ri].read_exact_to(&mut f, n);
                if n <= avail {
                    match r {
                        Ok(()) => {
                            let mut got = vec![0u8; n];
                            let _ = f.read_exact_at(&mut got, 0);
                            if got[..] != req[cur..cur + n] {
                                out.fail(tag("read_exact_to/bytes"), format!("op {}: file content differs", i));
                            }
                            crossed |= crosses(segs, cur, cur + n);
                            models[ri].cursor += n;
                        }
                        Err(e) => out.fail(tag("read_exact_to/err"), format!("op {}: failed with {} available: {}", i, avail, e)),
                    }
                } else {
                    over = true;
                    if r.is_ok() {
                        out.fail(tag("read_exact_to/over-ok"), format!("op {}: succeeded beyond the end", i));
                        return;
                    }
                    let c = readers[ri].bytes_read();
                    models[ri].cursor = (models[ri].start + c).min(models[ri].end);
                }
            }
            ROp::Split(_, rel) => {
                let off = rel.of(avail);
                let r = readers[ri].split_at(off);
                if off <= avail {
                    match r {
                        Ok(nr) => {
                            if models[ri].cursor > models[ri].start {
                                split_after_partial = true;
                            }
                            let p = cur + off;
                            let oe = models[ri].end;
                            models[ri].end = p;
                            readers.push(nr);
                            models.push(RModel { start: p, end: oe, cursor: p });
                        }
                        Err(e) => out.fail(tag("split/err"), format!("op {}: split_at({}) failed with {} available: {:?}", i, off, avail, e)),
                    }
                } else {
                    over = true;
                    if r.is_ok() {
                        out.fail(tag("split/over-ok"), format!("op {}: split_at({}) succeeded with {} available", i, off, avail));
                        return;
                    }
                }
            }
            ROp::Counters(_) => {}
        }
        // counters of every reader after every op
        for (j, (r, m)) in readers.iter().zip(models.iter()).enumerate() {
            let a = r.available_bytes();
            let c = r.bytes_read();
            if a != m.end - m.cursor || c != m.cursor - m.start {
                out.fail(
                    tag("counters"),
                    format!("after op {}: reader {} available={} consumed={} but model available={} consumed={}", i, j, a, c, m.end - m.cursor, m.cursor - m.start),
                );
                return;
            }
        }
        if !out.fails.is_empty() {
            return;
        }
    }
    if split_after_partial {
        out.class("reader:split-after-partial");
    }
    if crossed {
        out.class("reader:crossed-segment");
    }
    if over {
        out.class("reader:over-capacity");
    }
    out.nontrivial = split_after_partial || crossed || over;
}

// ------------------------------------------------------------------ writer

pub struct WModel {
    /// range in flat coordinates of the writable area
    pub start: usize,
    pub end: usize,
    pub cursor: usize,
    /// fusedev: has this writer (or an ancestor) been split (buffered)?
    pub buffered: bool,
    /// alive = can still be used
    pub used_unbuffered: bool,
}

fn w_write_obj<S: BitmapSlice>(w: &mut Writer<'_, S>, bytes: &[u8], kind: u8) -> (usize, std::io::Result<()>) {
    macro_rules! wo {
        ($t:ty) => {{
            let n = std::mem::size_of::<$t>();
            let v = *<$t>::from_slice(&bytes[..n]).unwrap();
            let r = match w {
                Writer::FuseDev(x) => x.write_obj(v),
                Writer::VirtioFs(x) => x.write_obj(v),
                _ => unreachable!(),
            };
            (n, r)
        }};
    }
    match kind % 8 {
        0 => wo!(u8),
        1 => wo!(u32),
        2 => wo!(u64),
        3 => wo!(abi::OutHeader),
        4 => wo!(abi::FileLock),
        5 => wo!(abi::Dirent),
        6 => wo!(abi::Attr),
        _ => wo!(abi::EntryOut),
    }
}
fn obj_size(kind: u8) -> usize {
    [1, 4, 8, 16, 24, 24, 88, 128][(kind % 8) as usize]
}

pub struct WRun {
    /// model memory of the writable area: Some(byte) where the server wrote
    pub mem: Vec<Option<u8>>,
    pub models: Vec<WModel>,
    pub datagram_expected: Vec<Vec<u8>>,
}

/// Interpret writer ops. `flat_len` = total writable bytes. Returns the model of what must be in memory.
pub fn run_writer_ops<'a, S: BitmapSlice>(
    out: &mut Outcome,
    fusedev: bool,
    segs: &[usize],
    first: Writer<'a, S>,
    flat_len: usize,
    ops: &[WOp],
    writers_out: &mut Vec<Writer<'a, S>>,
) -> WRun {
    let mut writers = vec![first];
    let mut run = WRun {
        mem: vec![None; flat_len],
        models: vec![WModel { start: 0, end: flat_len, cursor: 0, buffered: !fusedev, used_unbuffered: false }],
        datagram_expected: vec![],
    };
    let mut split_after_partial = false;
    let mut crossed = false;
    let mut over = false;
    let tag = |s: &str| format!("writer/{}", s);
    for (i, op) in ops.iter().enumerate() {
        let wsel = match op {
            WOp::Write(w, ..) | WOp::WriteAll(w, ..) | WOp::WriteVectored(w, ..) | WOp::WriteObj(w, ..) | WOp::WriteFrom(w, ..) | WOp::WriteFromAt(w, ..)
            | WOp::WriteAllFrom(w, ..) | WOp::Split(w, _) | WOp::SplitInside(w, _) | WOp::Counters(w) => pick_idx((*w as u16) << 8, writers.len()),
        };
        let wi = wsel;
        let avail = run.models[wi].end - run.models[wi].cursor;
        let cur = run.models[wi].cursor;
        let is_write = !matches!(op, WOp::Split(..) | WOp::SplitInside(..) | WOp::Counters(..));
        let _ = is_write;
        if fusedev && run.models[wi].used_unbuffered {
            // documented contract: an unsplit /dev/fuse writer sends its one message with the
            // first write; it is not written, split or committed afterwards
            continue;
        }
        // place bytes into the model
        let mut place = |run: &mut WRun, bytes: &[u8]| {
            let c = run.models[wi].cursor;
            for (k, b) in bytes.iter().enumerate() {
                run.mem[c + k] = Some(*b);
            }
            run.models[wi].cursor += bytes.len();
        };
        let unbuffered = fusedev && !run.models[wi].buffered;
        match op {
            WOp::Write(_, rel, seed) | WOp::WriteAll(_, rel, seed) => {
                let n = rel.of(avail).min(1 << 21);
                let d = data(*seed, n);
                let all = matches!(op, WOp::WriteAll(..));
                let r: std::io::Result<usize> = if all { writers[wi].write_all(&d).map(|_| n) } else { writers[wi].write(&d) };
                if n <= avail {
                    match r {
                        Ok(k) => {
                            if k > n || (n > 0 && k == 0) {
                                out.fail(tag("write/count"), format!("op {}: write({}) returned {}", i, n, k));
                                return run;
                            }
                            crossed |= crosses(segs, cur, cur + k);
                            place(&mut run, &d[..k]);
                            if unbuffered {
                                run.models[wi].used_unbuffered |= run.models[wi].cursor > run.models[wi].start;
                                run.datagram_expected.push(d[..k].to_vec());
                            }
                        }
                        Err(e) => out.fail(tag("write/err"), format!("op {}: write({}) failed with {} available: {}", i, n, avail, e)),
                    }
                } else {
                    over = true;
                    if r.is_ok() {
                        out.fail(tag("write/over-ok"), format!("op {}: write({}) succeeded with {} available", i, n, avail));
                        return run;
                    }
                }
            }
            WOp::WriteVectored(_, rels, seed) => {
                let mut bufs: Vec<Vec<u8>> = vec![];
                let mut left = avail;
                let mut total = 0usize;
                for (j, r) in rels.iter().enumerate() {
                    let n = match r {
                        Rel::Over(k) => left + 1 + *k as usize,
                        other => other.of(left),
                    }
                    .min(1 << 21);
                    left = left.saturating_sub(n);
                    total += n;
                    bufs.push(data(seed.wrapping_add(j as u32), n));
                }
                let ios: Vec<IoSlice> = bufs.iter().map(|b| IoSlice::new(b)).collect();
                let r = writers[wi].write_vectored(&ios);
                let flat: Vec<u8> = bufs.concat();
                if total <= avail {
                    match r {
                        Ok(k) => {
                            if k > total || (total > 0 && k == 0) {
                                out.fail(tag("write_vectored/count"), format!("op {}: returned {} for {} bytes", i, k, total));
                                return run;
                            }
                            crossed |= crosses(segs, cur, cur + k);
                            place(&mut run, &flat[..k]);
                            if unbuffered {
                                run.models[wi].used_unbuffered |= run.models[wi].cursor > run.models[wi].start;
                                if !ios.is_empty() {
                                    run.datagram_expected.push(flat[..k].to_vec());
                                }
                            }
                        }
                        Err(e) => out.fail(tag("write_vectored/err"), format!("op {}: failed for {} bytes with {} available: {}", i, total, avail, e)),
                    }
                } else {
                    over = true;
                    if r.is_ok() {
                        out.fail(tag("write_vectored/over-ok"), format!("op {}: {} bytes accepted with {} available", i, total, avail));
                        return run;
                    }
                }
            }
            WOp::WriteObj(_, kind, seed) => {
                let n = obj_size(*kind);
                let d = data(*seed, 128);
                let (n2, r) = w_write_obj(&mut writers[wi], &d, *kind);
                assert_eq!(n, n2);
                if n <= avail {
                    match r {
                        Ok(()) => {
                            crossed |= crosses(segs, cur, cur + n);
                            place(&mut run, &d[..n]);
                            if unbuffered {
                                run.models[wi].used_unbuffered |= run.models[wi].cursor > run.models[wi].start;
                                run.datagram_expected.push(d[..n].to_vec());
                            }
                        }
                        Err(e) => out.fail(tag("write_obj/err"), format!("op {}: write_obj({}) failed with {} available: {}", i, n, avail, e)),
                    }
                } else {
                    over = true;
                    if r.is_ok() {
                        out.fail(tag("write_obj/over-ok"), format!("op {}: object of {} bytes accepted with {} available", i, n, avail));
                        return run;
                    }
                }
            }
            WOp::WriteFrom(_, crel, frel, seed) | WOp::WriteAllFrom(_, crel, frel, seed) | WOp::WriteFromAt(_, crel, frel, _, seed) => {
                let count = crel.of(avail).min(1 << 21);
                let flen = match frel {
                    Rel::Fit => count,
                    Rel::Over(k) => count + 1 + *k as usize,
                    Rel::Frac(f) => pick_idx(*f, count + 1),
                    Rel::Abs(n) => *n as usize,
                };
                // an unsplit /dev/fuse writer must be written in one shot: write_all_from needs a file that
                // can satisfy the whole count in one read (a short file would force a second device write)
                let flen = if unbuffered && matches!(op, WOp::WriteAllFrom(..)) { flen.max(count) } else { flen };
                let fdata = data(*seed, flen);
                let mut f = memfd_with(&fdata);
                let foff = if let WOp::WriteFromAt(_, _, _, o, _) = op { pick_idx(*o, flen + 1) } else { 0 };
                let all = matches!(op, WOp::WriteAllFrom(..));
                let r: std::io::Result<usize> = match (&mut writers[wi], op) {
                    (w, WOp::WriteFromAt(..)) => w.write_from_at(&mut f, count, foff as u64),
                    (Writer::FuseDev(x), WOp::WriteFrom(..)) => x.write_from(&mut f, count),
                    (Writer::VirtioFs(x), WOp::WriteFrom(..)) => x.write_from(&mut f, count),
                    (Writer::FuseDev(x), _) => x.write_all_from(&mut f, count).map(|_| count),
                    (Writer::VirtioFs(x), _) => x.write_all_from(&mut f, count).map(|_| count),
                    _ => unreachable!(),
                };
                let have = flen - foff;
                if count <= avail {
                    if all && have < count {
                        // short file: write_all_from must fail (after having moved what there was)
                        if r.is_ok() {
                            out.fail(tag("write_all_from/short-ok"), format!("op {}: {} bytes requested from a {}-byte file succeeded", i, count, have));
                            return run;
                        }
                        if unbuffered {
                            // an unbuffered writer has already sent what it could; stop using it
                            run.models[wi].used_unbuffered |= run.models[wi].cursor > run.models[wi].start;
                            let wr = writers[wi].bytes_written();
                            let c0 = run.models[wi].cursor;
                            let k = (run.models[wi].start + wr).saturating_sub(c0).min(have);
                            place(&mut run, &fdata[foff..foff + k]);
                            if k > 0 {
                                run.datagram_expected.push(fdata[foff..foff + k].to_vec());
                            }
                        } else {
                            let wr = writers[wi].bytes_written();
                            let c0 = run.models[wi].cursor;
                            let k = (run.models[wi].start + wr).saturating_sub(c0).min(have);
                            place(&mut run, &fdata[foff..foff + k]);
                        }
                    } else {
                        match r {
                            Ok(k) => {
                                let exp = count.min(have);
                                if k > exp || (exp > 0 && k == 0) {
                                    out.fail(tag("write_from/count"), format!("op {}: returned {} (count {}, file has {})", i, k, count, have));
                                    return run;
                                }
                                crossed |= crosses(segs, cur, cur + k);
                                place(&mut run, &fdata[foff..foff + k]);
                                if unbuffered {
                                    run.models[wi].used_unbuffered |= run.models[wi].cursor > run.models[wi].start;
                                    run.datagram_expected.push(fdata[foff..foff + k].to_vec());
                                }
                            }
                            Err(e) => out.fail(tag("write_from/err"), format!("op {}: failed (count {}, avail {}, file {}): {}", i, count, avail, have, e)),
                        }
                    }
                } else {
                    over = true;
                    if r.is_ok() {
                        out.fail(tag("write_from/over-ok"), format!("op {}: count {} accepted with {} available", i, count, avail));
                        return run;
                    }
                }
            }
            WOp::Split(_, rel) => {
                let rel_off = rel.of(avail);
                let written = cur - run.models[wi].start;
                let off = if fusedev { written + rel_off } else { rel_off };
                let r = writers[wi].split_at(off);
                if rel_off <= avail {
                    match r {
                        Ok(nw) => {
                            if written > 0 {
                                split_after_partial = true;
                            }
                            let p = cur + rel_off;
                            let oe = run.models[wi].end;
                            run.models[wi].end = p;
                            run.models[wi].buffered = true;
                            writers.push(nw);
                            run.models.push(WModel { start: p, end: oe, cursor: p, buffered: true, used_unbuffered: false });
                        }
                        Err(e) => out.fail(tag("split/err"), format!("op {}: split_at({}) failed with {} available: {:?}", i, off, avail, e)),
                    }
                } else {
                    over = true;
                    if r.is_ok() {
                        out.fail(tag("split/over-ok"), format!("op {}: split_at({}) succeeded with {} available", i, off, avail));
                        return run;
                    }
                }
            }
            WOp::SplitInside(_, frac) => {
                if !fusedev || run.models[wi].used_unbuffered {
                    continue;
                }
                let written = cur - run.models[wi].start;
                let off = pick_idx(*frac, written + 1);
                match writers[wi].split_at(off) {
                    Ok(nw) => {
                        if written > 0 {
                            split_after_partial = true;
                        }
                        let p = run.models[wi].start + off;
                        let oe = run.models[wi].end;
                        run.models[wi].end = p;
                        run.models[wi].cursor = p;
                        run.models[wi].buffered = true;
                        writers.push(nw);
                        run.models.push(WModel { start: p, end: oe, cursor: cur, buffered: true, used_unbuffered: false });
                    }
                    Err(e) => out.fail(tag("split-inside/err"), format!("op {}: split_at({}) inside {} written bytes failed: {:?}", i, off, written, e)),
                }
            }
            WOp::Counters(_) => {}
        }
        for (j, (w, m)) in writers.iter().zip(run.models.iter()).enumerate() {
            let a = w.available_bytes();
            let c = w.bytes_written();
            if a != m.end - m.cursor || c != m.cursor - m.start {
                out.fail(
                    tag("counters"),
                    format!("after op {}: writer {} available={} written={} but model available={} written={}", i, j, a, c, m.end - m.cursor, m.cursor - m.start),
                );
                return run;
            }
        }
        if !out.fails.is_empty() {
            return run;
        }
    }
    if split_after_partial {
        out.class("writer:split-after-partial");
    }
    if crossed {
        out.class("writer:crossed-segment");
    }
    if over {
        out.class("writer:over-capacity");
    }
    out.nontrivial = split_after_partial || crossed || over;
    writers_out.extend(writers);
    run
}

fn seg_ends(lens: impl Iterator<Item = usize>) -> Vec<usize> {
    let mut v = vec![];
    let mut s = 0;
    for l in lens {
        s += l;
        v.push(s);
    }
    v.pop();
    v
}

pub fn run(c: &Case) -> Outcome {
    let mut out = Outcome::default();
    match c {
        Case::Reader { virtio, total, seed, ops } => {
            let total = *total as usize;
            let req = data(*seed, total);
            match virtio {
                None => {
                    out.class("reader:fusedev");
                    let mut buf = vec![0u8; total + 2 * CANARY_PAD];
                    for (i, b) in buf.iter_mut().enumerate() {
                        *b = canary(i);
                    }
                    buf[CANARY_PAD..CANARY_PAD + total].copy_from_slice(&req);
                    let snap = buf.clone();
                    {
                        let (_, rest) = buf.split_at_mut(CANARY_PAD);
                        let (win, _) = rest.split_at_mut(total);
                        let r: Reader<'_, ()> = Reader::from_fuse_buffer(FuseBuf::new(win)).unwrap();
                        run_reader_ops(&mut out, &req, &[], r, ops);
                    }
                    if buf != snap {
                        out.fail("reader/memory-modified", "request buffer or canary modified by read operations");
                    }
                }
                Some(spec) => {
                    out.class("reader:virtio");
                    let mut s = spec.clone();
                    s.fit_readable(total);
                    let mut env = VirtioEnv::new(&s, &req);
                    let segs = seg_ends(env.rsegs.iter().map(|x| x.1));
                    {
                        let chain = env.chain();
                        let mem: &'static Gm = env.mem_static();
                        match Reader::from_descriptor_chain(mem, chain) {
                            Ok(r) => run_reader_ops(&mut out, &req, &segs, r, ops),
                            Err(e) => out.fail("reader/construct", format!("{:?}", e)),
                        }
                    }
                    if !env.outside_unchanged() || env.wbytes() != env.wbytes_before() {
                        out.fail("reader/memory-modified", "guest memory modified by read operations");
                    }
                    if !env.dirty_pages().is_empty() {
                        out.fail("dirty/reader-marked", format!("read-only operations marked pages dirty: {:?}", env.dirty_pages()));
                    }
                }
            }
        }
        Case::Writer { virtio, cap, ops, commit } => {
            let cap = *cap as usize;
            match virtio {
                None => {
                    out.class("writer:fusedev");
                    let sp = SockPair::new();
                    let mut buf = vec![0u8; cap + 2 * CANARY_PAD];
                    for (i, b) in buf.iter_mut().enumerate() {
                        *b = canary(i);
                    }
                    let snap = buf.clone();
                    let mut expected_dgrams: Vec<Vec<u8>>;
                    let mem_model;
                    let commit_res;
                    {
                        let (_, rest) = buf.split_at_mut(CANARY_PAD);
                        let (win, _) = rest.split_at_mut(cap);
                        let w = FuseDevWriter::<()>::new(sp.tx, win).unwrap();
                        let mut ws = vec![];
                        let run = run_writer_ops(&mut out, true, &[], Writer::FuseDev(w), cap, ops, &mut ws);
                        expected_dgrams = run.datagram_expected.clone();
                        mem_model = run.mem.clone();
                        if !out.fails.is_empty() || ws.is_empty() {
                            return out;
                        }
                        // commit
                        let a = pick_idx((commit.0 as u16) << 8, ws.len());
                        let b = commit.1.map(|x| pick_idx((x as u16) << 8, ws.len())).filter(|b| *b != a);
                        let ma = &run.models[a];
                        let pa: Vec<u8> = (ma.start..ma.cursor).map(|k| run.mem[k].unwrap()).collect();
                        let pb: Vec<u8> = match b {
                            Some(b) => {
                                let mb = &run.models[b];
                                (mb.start..mb.cursor).map(|k| run.mem[k].unwrap()).collect()
                            }
                            None => vec![],
                        };
                        let (wa, wb) = if let Some(b) = b {
                            if a < b {
                                let (l, r) = ws.split_at_mut(b);
                                (&mut l[a], Some(&r[0]))
                            } else {
                                let (l, r) = ws.split_at_mut(a);
                                (&mut r[0], Some(&l[b]))
                            }
                        } else {
                            (&mut ws[a], None)
                        };
                        commit_res = wa.commit(wb).map_err(|e| e.to_string());
                        if ma.buffered {
                            let mut msg = pa.clone();
                            msg.extend(pb);
                            if !msg.is_empty() {
                                expected_dgrams.push(msg.clone());
                            }
                            match &commit_res {
                                Ok(n) if *n == msg.len() => {}
                                other => out.fail("writer/commit-result", format!("commit returned {:?}, expected Ok({})", other, msg.len())),
                            }
                        }
                    }
                    let got: Vec<Vec<u8>> = sp.drain().into_iter().filter(|d| !d.is_empty()).collect();
                    expected_dgrams.retain(|d| !d.is_empty());
                    if got != expected_dgrams {
                        out.fail(
                            "writer/datagrams",
                            format!("device saw {:?} byte messages, expected {:?} (or same sizes, different bytes)", got.iter().map(|d| d.len()).collect::<Vec<_>>(), expected_dgrams.iter().map(|d| d.len()).collect::<Vec<_>>()),
                        );
                    }
                    // memory: written positions hold the model bytes, everything else canary
                    for k in 0..buf.len() {
                        let want = if k >= CANARY_PAD && k < CANARY_PAD + cap { mem_model[k - CANARY_PAD].unwrap_or(snap[k]) } else { snap[k] };
                        // an unsplit writer sends its data straight to the device without staging it in the buffer
                        if buf[k] != want && buf[k] != snap[k] {
                            out.fail(
                                if k >= CANARY_PAD && k < CANARY_PAD + cap { "writer/buffer-content" } else { "writer/out-of-bounds" },
                                format!("byte {} of the reply buffer frame is {:#x}, expected {:#x}", k as i64 - CANARY_PAD as i64, buf[k], want),
                            );
                            break;
                        }
                    }
                }
                Some(spec) => {
                    out.class("writer:virtio");
                    let mut s = spec.clone();
                    s.fit_writable(cap);
                    let rt = s.rtotal();
                    let mut env = VirtioEnv::new(&s, &data(7, rt));
                    let segs = seg_ends(env.wsegs.iter().map(|x| x.1));
                    let run;
                    {
                        let chain = env.chain();
                        let mem: &'static Gm = env.mem_static();
                        match VirtioFsWriter::new(mem, chain) {
                            Ok(w) => {
                                let mut ws = vec![];
                                run = run_writer_ops(&mut out, false, &segs, Writer::VirtioFs(w), cap, ops, &mut ws);
                            }
                            Err(e) => {
                                out.fail("writer/construct", format!("{:?}", e));
                                return out;
                            }
                        }
                    }
                    if !env.outside_unchanged() {
                        out.fail("writer/out-of-bounds", "guest memory outside the writable descriptors modified");
                    }
                    let now = env.wbytes();
                    let before = env.wbytes_before();
                    for k in 0..cap {
                        let want = run.mem[k].unwrap_or(before[k]);
                        if now[k] != want {
                            out.fail("writer/buffer-content", format!("byte {} of the writable chain is {:#x}, expected {:#x}", k, now[k], want));
                            break;
                        }
                    }
                    // C17: dirty pages == pages of written ranges
                    let mut exp = std::collections::BTreeSet::new();
                    let mut k = 0;
                    while k < cap {
                        if run.mem[k].is_some() {
                            let s0 = k;
                            while k < cap && run.mem[k].is_some() {
                                k += 1;
                            }
                            for p in env.pages_of_wrange(s0, k - s0) {
                                exp.insert(p);
                            }
                        } else {
                            k += 1;
                        }
                    }
                    let got: std::collections::BTreeSet<u64> = env.dirty_pages().into_iter().collect();
                    if out.fails.is_empty() {
                        for p in exp.difference(&got) {
                            out.fail("dirty/missing", format!("page {:#x} was written but is not marked dirty", p));
                            break;
                        }
                        for p in got.difference(&exp) {
                            out.fail("dirty/spurious", format!("page {:#x} is marked dirty but nothing was written there", p));
                            break;
                        }
                    }
                    let ranges = {
                        let mut n = 0;
                        let mut prev = false;
                        for k in 0..cap {
                            let cur = run.mem[k].is_some();
                            if cur && !prev {
                                n += 1;
                            }
                            prev = cur;
                        }
                        n
                    };
                    if exp.len() >= 2 && ranges >= 1 && run.mem.iter().any(|b| b.is_none()) {
                        out.class("dirty:multi-page-with-unwritten-remainder");
                    }
                }
            }
        }
    }
    out
}

// ---------------------------------------------------------------- strategies

fn rel() -> BoxedStrategy<Rel> {
    prop_oneof![
        5 => any::<u16>().prop_map(Rel::Frac),
        2 => Just(Rel::Fit),
        2 => (0u8..3).prop_map(Rel::Over),
        3 => prop_oneof![Just(0u16), Just(1), Just(2), Just(7), Just(8), Just(16), Just(40), 0u16..300].prop_map(Rel::Abs),
    ]
    .boxed()
}

fn rops() -> BoxedStrategy<Vec<ROp>> {
    let op = prop_oneof![
        3 => (any::<u8>(), rel()).prop_map(|(r, l)| ROp::Read(r, l)),
        2 => (any::<u8>(), rel()).prop_map(|(r, l)| ROp::ReadExact(r, l)),
        3 => (any::<u8>(), any::<u8>()).prop_map(|(r, k)| ROp::ReadObj(r, k)),
        2 => (any::<u8>(), rel()).prop_map(|(r, l)| ROp::ReadTo(r, l)),
        2 => (any::<u8>(), rel(), 0u16..5000).prop_map(|(r, l, o)| ROp::ReadToAt(r, l, o)),
        1 => (any::<u8>(), rel()).prop_map(|(r, l)| ROp::ReadExactTo(r, l)),
        3 => (any::<u8>(), rel()).prop_map(|(r, l)| ROp::Split(r, l)),
        1 => any::<u8>().prop_map(ROp::Counters),
    ];
    proptest::collection::vec(op, 1..40).boxed()
}

fn wops() -> BoxedStrategy<Vec<WOp>> {
    let op = prop_oneof![
        3 => (any::<u8>(), rel(), any::<u32>()).prop_map(|(w, l, s)| WOp::Write(w, l, s)),
        2 => (any::<u8>(), rel(), any::<u32>()).prop_map(|(w, l, s)| WOp::WriteAll(w, l, s)),
        3 => (any::<u8>(), proptest::collection::vec(rel(), 0..5), any::<u32>()).prop_map(|(w, l, s)| WOp::WriteVectored(w, l, s)),
        2 => (any::<u8>(), any::<u8>(), any::<u32>()).prop_map(|(w, k, s)| WOp::WriteObj(w, k, s)),
        2 => (any::<u8>(), rel(), rel(), any::<u32>()).prop_map(|(w, c, f, s)| WOp::WriteFrom(w, c, f, s)),
        3 => (any::<u8>(), rel(), rel(), any::<u16>(), any::<u32>()).prop_map(|(w, c, f, o, s)| WOp::WriteFromAt(w, c, f, o, s)),
        1 => (any::<u8>(), rel(), rel(), any::<u32>()).prop_map(|(w, c, f, s)| WOp::WriteAllFrom(w, c, f, s)),
        4 => (any::<u8>(), rel()).prop_map(|(w, l)| WOp::Split(w, l)),
        1 => (any::<u8>(), any::<u16>()).prop_map(|(w, f)| WOp::SplitInside(w, f)),
        1 => any::<u8>().prop_map(WOp::Counters),
    ];
    proptest::collection::vec(op, 1..40).boxed()
}

fn sizes() -> BoxedStrategy<u32> {
    prop_oneof![
        Just(0u32), Just(1), Just(15), Just(16), Just(17), Just(40), Just(128), Just(4095), Just(4096), Just(4097), 0u32..600, 0u32..20000
    ]
    .boxed()
}

pub fn strategy(_tier: Tier, virtio_only: bool) -> BoxedStrategy<Case> {
    let v = if virtio_only { chain_strategy().prop_map(Some).boxed() } else { prop_oneof![1 => Just(None), 1 => chain_strategy().prop_map(Some)].boxed() };
    prop_oneof![
        2 => (v.clone(), sizes(), any::<u32>(), rops()).prop_map(|(virtio, total, seed, ops)| Case::Reader { virtio, total, seed, ops }),
        3 => (v, sizes(), wops(), (any::<u8>(), proptest::option::of(any::<u8>()))).prop_map(|(virtio, cap, ops, commit)| Case::Writer { virtio, cap, ops, commit }),
    ]
    .boxed()
}

// ---------------------------------------------------------------- FileVolatileSlice as Bytes<usize>

#[derive(Clone, Debug, Serialize, Deserialize)]
pub enum BOp {
    Write(u16, u16, u32),
    Read(u16, u16),
    WriteSlice(u16, u16, u32),
    ReadSlice(u16, u16),
    Store(u16, u8, u64),
    Load(u16, u8),
    ReadFromFile(u16, u16, u32),
    ReadExactFromFile(u16, u16, u32),
    WriteToFile(u16, u16),
    WriteAllToFile(u16, u16),
    Offset(u16),
    FileRead(u16, Vec<u16>, u16),
    FileWrite(u16, Vec<u16>, u16),
}

#[derive(Clone, Debug, Serialize, Deserialize)]
pub struct BCase {
    pub len: u16,
    pub seed: u32,
    pub ops: Vec<BOp>,
}

fn bstrategy() -> BoxedStrategy<BCase> {
    let pos = prop_oneof![3 => any::<u16>(), 1 => Just(u16::MAX), 1 => Just(0u16)];
    let op = prop_oneof![
        (pos.clone(), 0u16..300, any::<u32>()).prop_map(|(a, n, s)| BOp::Write(a, n, s)),
        (pos.clone(), 0u16..300).prop_map(|(a, n)| BOp::Read(a, n)),
        (pos.clone(), 0u16..300, any::<u32>()).prop_map(|(a, n, s)| BOp::WriteSlice(a, n, s)),
        (pos.clone(), 0u16..300).prop_map(|(a, n)| BOp::ReadSlice(a, n)),
        (pos.clone(), 0u8..4, any::<u64>()).prop_map(|(a, k, v)| BOp::Store(a, k, v)),
        (pos.clone(), 0u8..4).prop_map(|(a, k)| BOp::Load(a, k)),
        (pos.clone(), 0u16..300, any::<u32>()).prop_map(|(a, n, s)| BOp::ReadFromFile(a, n, s)),
        (pos.clone(), 0u16..300, any::<u32>()).prop_map(|(a, n, s)| BOp::ReadExactFromFile(a, n, s)),
        (pos.clone(), 0u16..300).prop_map(|(a, n)| BOp::WriteToFile(a, n)),
        (pos.clone(), 0u16..300).prop_map(|(a, n)| BOp::WriteAllToFile(a, n)),
        pos.clone().prop_map(BOp::Offset),
        (0u16..400, proptest::collection::vec(0u16..200, 0..5), 0u16..400).prop_map(|(fl, iov, off)| BOp::FileRead(fl, iov, off)),
        (0u16..400, proptest::collection::vec(0u16..200, 0..5), 0u16..400).prop_map(|(fl, iov, off)| BOp::FileWrite(fl, iov, off)),
    ];
    (prop_oneof![Just(0u16), Just(1), Just(8), 0u16..600], any::<u32>(), proptest::collection::vec(op, 1..30))
        .prop_map(|(len, seed, ops)| BCase { len, seed, ops })
        .boxed()
}

pub fn run_bytes(c: &BCase) -> Outcome {
    let mut out = Outcome::default();
    let len = c.len as usize;
    let mut frame = vec![0u8; len + 2 * CANARY_PAD];
    for (i, b) in frame.iter_mut().enumerate() {
        *b = canary(i);
    }
    let init = data(c.seed, len);
    frame[CANARY_PAD..CANARY_PAD + len].copy_from_slice(&init);
    let mut model = init.clone();
    let base = unsafe { frame.as_mut_ptr().add(CANARY_PAD) };
    let s = unsafe { FileVolatileSlice::from_raw_ptr(base, len) };
    let cur = |_: ()| -> Vec<u8> {
        let mut v = vec![0u8; len];
        unsafe { std::ptr::copy_nonoverlapping(base as *const u8, v.as_mut_ptr(), len) };
        v
    };
    let mut oob = false;
    for (i, op) in c.ops.iter().enumerate() {
        let at = |a: &u16| -> usize {
            if *a == u16::MAX {
                len + 1
            } else {
                pick_idx(*a, len + 1)
            }
        };
        let t = |x: &str| format!("bytes/{}", x);
        match op {
            BOp::Write(a, n, seed) => {
                let a = at(a);
                let d = data(*seed, *n as usize);
                let r = s.write(&d, a);
                if a > len || (a == len && !d.is_empty()) {
                    oob = true;
                    if let Ok(k) = r {
                        if k != 0 {
                            out.fail(t("write/oob-ok"), format!("op {}: write at {} (len {}) returned {}", i, a, len, k));
                        }
                    }
                } else {
                    match r {
                        Ok(k) => {
                            if k > d.len() || k > len - a {
                                out.fail(t("write/count"), format!("op {}: wrote {}", i, k));
                            } else {
                                model[a..a + k].copy_from_slice(&d[..k]);
                            }
                        }
                        Err(e) => {
                            if !d.is_empty() {
                                out.fail(t("write/err"), format!("op {}: {:?}", i, e))
                            }
                        }
                    }
                }
            }
            BOp::Read(a, n) => {
                let a = at(a);
                let mut b = vec![0xEEu8; *n as usize];
                let r = s.read(&mut b, a);
                if a > len || (a == len && *n > 0) {
                    oob = true;
                    if let Ok(k) = r {
                        if k != 0 {
                            out.fail(t("read/oob-ok"), format!("op {}: read at {} (len {}) returned {}", i, a, len, k));
                        }
                    }
                } else if let Ok(k) = r {
                    if k > b.len() || k > len - a || b[..k] != model[a..a + k] {
                        out.fail(t("read/bytes"), format!("op {}: read returned {} bytes that differ from the underlying memory", i, k));
                    }
                }
            }
            BOp::WriteSlice(a, n, seed) => {
                let a = at(a);
                let d = data(*seed, *n as usize);
                let r = s.write_slice(&d, a);
                if a + d.len() <= len && a <= len {
                    if r.is_err() && !d.is_empty() {
                        out.fail(t("write_slice/err"), format!("op {}: in-range write_slice failed", i));
                    } else if r.is_ok() {
                        model[a..a + d.len()].copy_from_slice(&d);
                    }
                } else {
                    oob = true;
                    if r.is_ok() && !d.is_empty() {
                        out.fail(t("write_slice/oob-ok"), format!("op {}: out-of-range write_slice succeeded", i));
                    }
                    // a failing write_slice may have written a prefix (vm-memory semantics): resync inside the window
                    model = cur(());
                }
            }
            BOp::ReadSlice(a, n) => {
                let a = at(a);
                let mut b = vec![0xEEu8; *n as usize];
                let r = s.read_slice(&mut b, a);
                if a + b.len() <= len && a <= len {
                    if r.is_err() && !b.is_empty() {
                        out.fail(t("read_slice/err"), format!("op {}: in-range read_slice failed", i));
                    } else if r.is_ok() && b[..] != model[a..a + b.len()] {
                        out.fail(t("read_slice/bytes"), format!("op {}: read_slice returned bytes that differ from the underlying memory", i));
                    }
                    if cur(()) != model {
                        out.fail(t("read_slice/modified"), format!("op {}: read_slice modified the underlying memory", i));
                        model = cur(());
                    }
                } else {
                    oob = true;
                    if r.is_ok() && !b.is_empty() {
                        out.fail(t("read_slice/oob-ok"), format!("op {}: out-of-range read_slice succeeded", i));
                    }
                    if cur(()) != model {
                        out.fail(t("read_slice/modified"), format!("op {}: failing read_slice modified the underlying memory", i));
                        model = cur(());
                    }
                }
            }
            BOp::Store(a, k, v) => {
                let w = 1usize << *k;
                let a = at(a) & !(w - 1);
                let r = match k {
                    0 => s.store(*v as u8, a, std::sync::atomic::Ordering::SeqCst),
                    1 => s.store(*v as u16, a, std::sync::atomic::Ordering::SeqCst),
                    2 => s.store(*v as u32, a, std::sync::atomic::Ordering::SeqCst),
                    _ => s.store(*v, a, std::sync::atomic::Ordering::SeqCst),
                };
                let aligned = (base as usize + a) % w == 0;
                if a + w <= len {
                    if r.is_ok() {
                        model[a..a + w].copy_from_slice(&v.to_le_bytes()[..w]);
                    } else if aligned {
                        out.fail(t("store/err"), format!("op {}: in-range aligned store failed", i));
                    }
                } else {
                    oob = true;
                    if r.is_ok() {
                        out.fail(t("store/oob-ok"), format!("op {}: out-of-range store succeeded", i));
                    }
                }
            }
            BOp::Load(a, k) => {
                let w = 1usize << *k;
                let a = at(a) & !(w - 1);
                let r: Result<u64, _> = match k {
                    0 => s.load::<u8>(a, std::sync::atomic::Ordering::SeqCst).map(|x| x as u64),
                    1 => s.load::<u16>(a, std::sync::atomic::Ordering::SeqCst).map(|x| x as u64),
                    2 => s.load::<u32>(a, std::sync::atomic::Ordering::SeqCst).map(|x| x as u64),
                    _ => s.load::<u64>(a, std::sync::atomic::Ordering::SeqCst),
                };
                if a + w <= len {
                    if let Ok(v) = r {
                        let mut e = [0u8; 8];
                        e[..w].copy_from_slice(&model[a..a + w]);
                        if v != u64::from_le_bytes(e) {
                            out.fail(t("load/value"), format!("op {}: load returned {:#x}", i, v));
                        }
                    }
                } else {
                    oob = true;
                    if r.is_ok() {
                        out.fail(t("load/oob-ok"), format!("op {}: out-of-range load succeeded", i));
                    }
                }
            }
            BOp::ReadFromFile(a, n, seed) | BOp::ReadExactFromFile(a, n, seed) => {
                let a = at(a);
                let n = *n as usize;
                let fd = data(*seed, n);
                let mut f = memfd_with(&fd);
                let exact = matches!(op, BOp::ReadExactFromFile(..));
                let r: Result<usize, _> = if exact { s.read_exact_volatile_from(a, &mut f, n).map(|_| n) } else { s.read_volatile_from(a, &mut f, n) };
                // vm-memory semantics: the plain variant clamps to the end of the slice, the exact variant does not
                let in_range = if exact { a <= len && a + n <= len } else { a <= len };
                if in_range {
                    match r {
                        Ok(k) => {
                            if k > n || k > len - a {
                                out.fail(t("read_from/count"), format!("op {}: {}", i, k));
                            } else {
                                model[a..a + k].copy_from_slice(&fd[..k]);
                            }
                        }
                        Err(e) => {
                            if n > 0 && a < len {
                                out.fail(t("read_from/err"), format!("op {}: {:?}", i, e))
                            }
                        }
                    }
                } else {
                    oob = true;
                    if r.is_ok() && n > 0 {
                        out.fail(t("read_from/oob-ok"), format!("op {}: out-of-range read_volatile_from succeeded", i));
                    }
                    model = cur(());
                }
            }
            BOp::WriteToFile(a, n) | BOp::WriteAllToFile(a, n) => {
                let a = at(a);
                let n = *n as usize;
                let mut f = memfd_with(&[]);
                let all = matches!(op, BOp::WriteAllToFile(..));
                let r: Result<usize, _> = if all { s.write_all_volatile_to(a, &mut f, n).map(|_| n) } else { s.write_volatile_to(a, &mut f, n) };
                let in_range = if all { a <= len && a + n <= len } else { a <= len };
                if in_range {
                    match r {
                        Ok(k) => {
                            if k > len - a {
                                out.fail(t("write_to/count"), format!("op {}: {}", i, k));
                                break;
                            }
                            let mut got = vec![0u8; k];
                            let _ = f.read_exact_at(&mut got, 0);
                            if k > n || got[..] != model[a..a + k] {
                                out.fail(t("write_to/bytes"), format!("op {}: file received bytes that differ from memory", i));
                            }
                        }
                        Err(e) => {
                            if n > 0 && a < len {
                                out.fail(t("write_to/err"), format!("op {}: {:?}", i, e))
                            }
                        }
                    }
                } else {
                    oob = true;
                    if r.is_ok() && n > 0 {
                        out.fail(t("write_to/oob-ok"), format!("op {}: out-of-range write_volatile_to succeeded", i));
                    }
                }
            }
            BOp::Offset(a) => {
                let a = at(a);
                match s.offset(a) {
                    Ok(s2) => {
                        if a > len || s2.len() != len - a || s2.as_ptr() as usize != base as usize + a {
                            out.fail(t("offset/value"), format!("op {}: offset({}) of a {}-byte slice gave len {}", i, a, len, s2.len()));
                        }
                    }
                    Err(_) => {
                        if a <= len {
                            out.fail(t("offset/err"), format!("op {}: offset({}) within {} failed", i, a, len));
                        }
                    }
                }
            }
            BOp::FileRead(flen, iov, off) | BOp::FileWrite(flen, iov, off) => {
                // FileReadWriteVolatile for File with a vector of sub-slices of our window
                let flen = *flen as usize;
                let fdata = data(c.seed ^ i as u32, flen);
                let mut f = memfd_with(&fdata);
                let mut slices = vec![];
                let mut pos = 0usize;
                let mut spans = vec![];
                for l in iov {
                    let l = (*l as usize).min(len - pos.min(len));
                    if pos + l > len {
                        break;
                    }
                    slices.push(unsafe { FileVolatileSlice::from_raw_ptr(base.add(pos), l) });
                    spans.push((pos, l));
                    pos += l;
                }
                let total: usize = spans.iter().map(|x| x.1).sum();
                let off = (*off as usize).min(flen);
                if let BOp::FileRead(..) = op {
                    match f.read_vectored_at_volatile(&slices, off as u64) {
                        Ok(k) => {
                            let exp = total.min(flen - off);
                            if k > exp || (exp > 0 && k == 0) {
                                out.fail(t("file/read-count"), format!("op {}: read_vectored_at returned {} expected <= {}", i, k, exp));
                            } else {
                                let mut rem = k;
                                let mut src = off;
                                for (p, l) in &spans {
                                    let n = rem.min(*l);
                                    model[*p..*p + n].copy_from_slice(&fdata[src..src + n]);
                                    src += n;
                                    rem -= n;
                                }
                            }
                        }
                        Err(e) => out.fail(t("file/read-err"), format!("op {}: {}", i, e)),
                    }
                } else {
                    match f.write_vectored_at_volatile(&slices, off as u64) {
                        Ok(k) => {
                            if k > total || (total > 0 && k == 0) {
                                out.fail(t("file/write-count"), format!("op {}: wrote {}", i, k));
                            } else {
                                let mut got = vec![0u8; k];
                                let _ = f.read_exact_at(&mut got, off as u64);
                                let mut exp = vec![];
                                for (p, l) in &spans {
                                    exp.extend_from_slice(&model[*p..*p + *l]);
                                }
                                if got[..] != exp[..k] {
                                    out.fail(t("file/write-bytes"), format!("op {}: file content differs from the source slices", i));
                                }
                            }
                        }
                        Err(e) => out.fail(t("file/write-err"), format!("op {}: {}", i, e)),
                    }
                }
            }
        }
        if cur(()) != model {
            out.fail(t("content"), format!("after op {}: underlying memory differs from the byte-vector model", i));
        }
        if !out.fails.is_empty() {
            break;
        }
    }
    for i in 0..CANARY_PAD {
        if frame[i] != canary(i) || frame[CANARY_PAD + len + i] != canary(CANARY_PAD + len + i) {
            out.fail("bytes/out-of-bounds", "memory outside the slice was modified");
            break;
        }
    }
    if oob {
        out.class("bytes:out-of-range-attempt");
    }
    out.nontrivial = c.ops.len() >= 2;
    out
}

pub struct C04;

impl Prop for C04 {
    fn id(&self) -> &'static str {
        "C04"
    }
    fn meta(&self) -> Meta {
        Meta {
            rule: "stateful sequences (1..40 ops) over a /dev/fuse buffer or a random virtio chain (1-7 readable + 1-7 writable segments of lengths incl. 0/1/page+-1, 3 regions, gaps, indirect tables): reader ops read/read_exact/read_obj/read_to/read_to_at/read_exact_to/split_at, writer ops write/write_all/write_vectored/write_obj/write_from/write_from_at/write_all_from/split_at (also nested and inside written bytes) + commit, sizes drawn relative to the remaining space (fit, one-too-many, fractions); plus FileVolatileSlice as Bytes<usize> and File vectored I/O against a Vec<u8> model; non-trivial = a split after partial consumption, an op crossing a segment border or an over-capacity attempt (bytes: >= 2 ops); distinct = distinct serialized case",
            assumptions: vec![
                "reference model: flat request byte vector with a cursor per (split) reader, byte vector per (split) writer".into(),
                "an unsplit /dev/fuse writer is written exactly once (documented contract)".into(),
                "after a *failed* read_exact/read_obj the cursor is re-synchronised from bytes_read (std read_exact leaves it unspecified)".into(),
                "canary frames stand in for a sanitizer in this tier".into(),
            ],
            ..Meta::default()
        }
    }
    fn worker(&self, w: &WorkerCtx) -> WorkerResult {
        let cases = w.share(w.tier.pick(40_000, 1_200_000));
        let mut r = drive(w, "C04", "rw", cases, strategy(w.tier, false), run);
        let n = w.share(w.tier.pick(20_000, 600_000));
        r.merge(drive(w, "C04", "bytes", n, bstrategy(), run_bytes));
        r
    }
    fn replay(&self, kind: &str, case: &Value) -> Vec<Fail> {
        if kind == "bytes" {
            let c: BCase = serde_json::from_value(case.clone()).expect("case");
            run_bytes(&c).fails
        } else {
            let c: Case = serde_json::from_value(case.clone()).expect("case");
            run(&c).fails
        }
    }
}
