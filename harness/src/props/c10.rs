//! C10 / C11 — overlay: union of the layers, lowers never modified (C10); disk state matches
//! the live view across restart and copy-up preserves files (C11). One driver, two oracles.
use crate::codec::{c, get, ssize};
use crate::engine::*;
use crate::jail as sys;
use crate::ptdrv::{attr_of, entry_of, filedata, AttrRep, FUSE_ALL};
use crate::vfsdrv::{call, mkreq, Rep};
use fuse_backend_rs::api::filesystem::Layer;
use fuse_backend_rs::api::server::Server;
use fuse_backend_rs::overlayfs::config::Config;
use fuse_backend_rs::overlayfs::OverlayFs;
use fuse_backend_rs::passthrough::{self, PassthroughFs};
use proptest::prelude::*;
use serde::{Deserialize, Serialize};
use serde_json::Value;
use std::collections::BTreeMap;
use std::sync::Arc;

pub const NAMES: &[&str] = &["a", "b", "c", "d"];
pub const OPAQUE_KEYS: &[&str] = &["user.fuseoverlayfs.opaque", "trusted.overlay.opaque", "user.overlay.opaque"];

#[derive(Clone, Debug, Serialize, Deserialize, PartialEq)]
pub enum LKind {
    File { seed: u32, len: u16, mode: u16 },
    Dir { mode: u16 },
    Symlink(u8),
    Whiteout,
    OpaqueDir(u8),
}

#[derive(Clone, Debug, Serialize, Deserialize, PartialEq)]
pub struct LEnt {
    pub path: Vec<u8>,
    pub kind: LKind,
}

#[derive(Clone, Debug, Serialize, Deserialize, PartialEq)]
pub enum OOp {
    Getattr(Vec<u8>),
    Read(Vec<u8>),
    Readlink(Vec<u8>),
    Create(Vec<u8>, u16),
    Mkdir(Vec<u8>, u16),
    Mknod(Vec<u8>),
    Symlink(Vec<u8>, u8),
    Link(Vec<u8>, Vec<u8>),
    Unlink(Vec<u8>),
    Rmdir(Vec<u8>),
    /// open(flags) + write(offset, data) + release
    Write(Vec<u8>, u8, u16, u16, u32),
    Chmod(Vec<u8>, u16),
    Truncate(Vec<u8>, u16),
    Utimens(Vec<u8>),
    Setxattr(Vec<u8>, u8),
    Getxattr(Vec<u8>, u8),
    Listxattr(Vec<u8>),
    Removexattr(Vec<u8>, u8),
    /// open(sel: RDONLY/RDWR/WRONLY) + SETATTR carrying the handle (fchmod / futimens / ftruncate) + release
    FSetattr(Vec<u8>, u8, u8, u16),
}

#[derive(Clone, Debug, Serialize, Deserialize, PartialEq)]
pub struct Case {
    pub has_upper: bool,
    /// layers[0] is the upper layer when has_upper, the rest are lowers (top first)
    pub layers: Vec<Vec<LEnt>>,
    pub ops: Vec<OOp>,
}

fn pstr(p: &[u8]) -> String {
    p.iter().map(|i| format!("/{}", NAMES[*i as usize % NAMES.len()])).collect()
}

pub fn layer_dir(i: usize) -> String {
    format!("/ov/layer{}", i)
}

fn materialise_layer(dir: &str, ents: &[LEnt]) {
    sys::rm_rf(dir);
    std::fs::create_dir_all(dir).unwrap();
    let _ = sys::chmod_path(dir.as_bytes(), 0o755);
    for e in ents {
        if e.path.is_empty() {
            continue;
        }
        let full = format!("{}{}", dir, pstr(&e.path));
        let parent = format!("{}{}", dir, pstr(&e.path[..e.path.len() - 1]));
        // parents are plain directories (created on demand); a non-directory in the way wins
        let mut cur = dir.to_string();
        let mut blocked = false;
        for comp in &e.path[..e.path.len() - 1] {
            cur = format!("{}/{}", cur, NAMES[*comp as usize % NAMES.len()]);
            match sys::lstat(&cur) {
                Ok(st) if st.st_mode & libc::S_IFMT == libc::S_IFDIR => {}
                Ok(_) => {
                    blocked = true;
                    break;
                }
                Err(_) => {
                    let _ = sys::mkdirat(libc::AT_FDCWD, cur.as_bytes(), 0o755);
                }
            }
        }
        let _ = parent;
        if blocked || sys::lstat(&full).is_ok() {
            continue;
        }
        match &e.kind {
            LKind::File { seed, len, mode } => {
                std::fs::write(&full, filedata(*seed, *len as usize % 9000)).unwrap();
                let _ = sys::chmod_path(full.as_bytes(), (*mode as u32 & 0o777) | 0o600);
            }
            LKind::Dir { mode } => {
                let _ = sys::mkdirat(libc::AT_FDCWD, full.as_bytes(), 0o755);
                let _ = sys::chmod_path(full.as_bytes(), (*mode as u32 & 0o777) | 0o700);
            }
            LKind::Symlink(t) => {
                let _ = sys::symlinkat(["a", "b/c", "../a", "nonexistent"][*t as usize % 4].as_bytes(), libc::AT_FDCWD, full.as_bytes());
            }
            LKind::Whiteout => {
                let _ = sys::mknodat(libc::AT_FDCWD, full.as_bytes(), libc::S_IFCHR | 0o777, 0);
            }
            LKind::OpaqueDir(k) => {
                let _ = sys::mkdirat(libc::AT_FDCWD, full.as_bytes(), 0o755);
                let _ = sys::lsetxattr(full.as_bytes(), OPAQUE_KEYS[*k as usize % 3].as_bytes(), b"y", 0);
            }
        }
    }
}

fn is_whiteout(st: &libc::stat64) -> bool {
    st.st_mode & libc::S_IFMT == libc::S_IFCHR && st.st_rdev == 0
}
fn is_opaque(path: &str) -> bool {
    sys::lgetxattr_all(path).iter().any(|(k, v)| OPAQUE_KEYS.iter().any(|o| o.as_bytes() == &k[..]) && v.len() == 1 && v[0].eq_ignore_ascii_case(&b'y'))
}

/// The overlayfs rules as a pure function of the layer directories: materialise the union under `dst`.
pub fn union_into(dst: &str, layers: &[String], rel: &str) {
    // `layers`: directories (top first) that all contain a DIRECTORY at `rel` and take part in the merge
    let mut names: Vec<String> = vec![];
    for l in layers {
        if let Ok(rd) = std::fs::read_dir(format!("{}{}", l, rel)) {
            for e in rd.flatten() {
                let n = e.file_name().to_string_lossy().to_string();
                if !names.contains(&n) {
                    names.push(n);
                }
            }
        }
    }
    names.sort();
    for n in names {
        let r = format!("{}/{}", rel, n);
        // topmost entry wins
        let mut merged: Vec<String> = vec![];
        let mut top: Option<libc::stat64> = None;
        for l in layers {
            let p = format!("{}{}", l, r);
            let Ok(st) = sys::lstat(&p) else { continue };
            if top.is_none() {
                if is_whiteout(&st) {
                    break;
                }
                top = Some(st);
                if st.st_mode & libc::S_IFMT != libc::S_IFDIR {
                    merged.push(l.clone());
                    break;
                }
                merged.push(l.clone());
                if is_opaque(&p) {
                    break;
                }
            } else {
                // below a directory: only further directories merge; a whiteout or non-directory stops
                if is_whiteout(&st) || st.st_mode & libc::S_IFMT != libc::S_IFDIR {
                    break;
                }
                merged.push(l.clone());
                if is_opaque(&p) {
                    break;
                }
            }
        }
        let Some(st) = top else { continue };
        let src = format!("{}{}", merged[0], r);
        let d = format!("{}{}", dst, r);
        match st.st_mode & libc::S_IFMT {
            libc::S_IFDIR => {
                let _ = sys::mkdirat(libc::AT_FDCWD, d.as_bytes(), 0o755);
                let _ = sys::chmod_path(d.as_bytes(), st.st_mode & 0o7777);
                union_into(dst, &merged, &r);
            }
            libc::S_IFREG => {
                std::fs::write(&d, std::fs::read(&src).unwrap_or_default()).unwrap();
                let _ = sys::chmod_path(d.as_bytes(), st.st_mode & 0o7777);
            }
            libc::S_IFLNK => {
                let t = std::fs::read_link(&src).unwrap();
                let _ = sys::symlinkat(std::os::unix::ffi::OsStrExt::as_bytes(t.as_os_str()), libc::AT_FDCWD, d.as_bytes());
            }
            _ => {}
        }
        // user xattrs other than the overlay's private ones travel with the top object
        for (k, v) in sys::lgetxattr_all(&src) {
            if k.starts_with(b"user.") && !OPAQUE_KEYS.iter().any(|o| o.as_bytes() == &k[..]) {
                let _ = sys::lsetxattr(d.as_bytes(), &k, &v, 0);
            }
        }
    }
}

pub struct Ov {
    pub srv: Server<Arc<OverlayFs>>,
}

type BoxedLayer = Box<dyn Layer<Inode = u64, Handle = u64> + Send + Sync>;

fn new_layer(root: &str) -> std::io::Result<Arc<BoxedLayer>> {
    let mut config = passthrough::Config::default();
    config.root_dir = root.to_string();
    config.xattr = true;
    config.do_import = true;
    let fs = Box::new(PassthroughFs::<()>::new(config)?);
    fs.import()?;
    Ok(Arc::new(fs as BoxedLayer))
}

impl Ov {
    pub fn start(has_upper: bool, nlayers: usize) -> Result<Ov, String> {
        let mut lowers = vec![];
        let mut upper = None;
        for i in 0..nlayers {
            let l = new_layer(&layer_dir(i)).map_err(|e| format!("layer {}: {}", i, e))?;
            if i == 0 && has_upper {
                upper = Some(l);
            } else {
                lowers.push(l);
            }
        }
        let mut config = Config::default();
        config.work = "/ov/work".to_string();
        config.mountpoint = "/ov/mnt".to_string();
        config.do_import = true;
        let fs = OverlayFs::new(upper, lowers, config).map_err(|e| format!("OverlayFs::new: {}", e))?;
        fs.import().map_err(|e| format!("import: {}", e))?;
        let srv = Server::new(Arc::new(fs));
        let flags = FUSE_ALL & !(c("FUSE_NO_OPEN_SUPPORT") | c("FUSE_NO_OPENDIR_SUPPORT"));
        let rep = call(&srv, &mkreq("INIT", 0, 0, 0, &[("major", 7), ("minor", 38), ("flags", (flags & 0xffff_ffff) | c("FUSE_INIT_EXT")), ("flags2", flags >> 32)], &[], &[]));
        if rep.error != 0 {
            return Err(format!("INIT: {}", rep.error));
        }
        Ok(Ov { srv })
    }

    /// LOOKUP walk; Err(errno) of the failing component
    pub fn resolve(&self, path: &[u8]) -> Result<(u64, AttrRep), i32> {
        let mut cur = 1u64;
        let mut attr = AttrRep { mode: libc::S_IFDIR | 0o755, ..Default::default() };
        for comp in path {
            let name = NAMES[*comp as usize % NAMES.len()];
            let rep = call(&self.srv, &mkreq("LOOKUP", cur, 0, 0, &[], &[name.as_bytes()], &[]));
            match entry_of(&rep, 0) {
                Some((id, a)) if id != 0 => {
                    cur = id;
                    attr = a;
                }
                _ => return Err(if rep.error == 0 { -libc::ENOENT } else { rep.error }),
            }
        }
        Ok((cur, attr))
    }

    fn listdir(&self, id: u64) -> Result<Vec<Vec<u8>>, i32> {
        let o = call(&self.srv, &mkreq("OPENDIR", id, 0, 0, &[("flags", 0)], &[], &[]));
        if o.error != 0 {
            return Err(o.error);
        }
        let fh = get(&o.body, 0, "fuse_open_out", "fh");
        let mut names = vec![];
        let mut off = 0u64;
        let dsz = ssize("fuse_dirent");
        for _ in 0..1000 {
            let r = call(&self.srv, &mkreq("READDIR", id, 0, 0, &[("fh", fh), ("offset", off), ("size", 1024)], &[], &[]));
            if r.error != 0 {
                let _ = call(&self.srv, &mkreq("RELEASEDIR", id, 0, 0, &[("fh", fh)], &[], &[]));
                return Err(r.error);
            }
            if r.body.is_empty() {
                break;
            }
            let mut pos = 0;
            while pos + dsz <= r.body.len() {
                let namelen = get(&r.body, pos, "fuse_dirent", "namelen") as usize;
                off = get(&r.body, pos, "fuse_dirent", "off");
                names.push(r.body[pos + dsz..pos + dsz + namelen].to_vec());
                pos += (dsz + namelen + 7) & !7;
            }
        }
        let _ = call(&self.srv, &mkreq("RELEASEDIR", id, 0, 0, &[("fh", fh)], &[], &[]));
        Ok(names)
    }

    fn read_all(&self, id: u64) -> Result<Vec<u8>, i32> {
        let o = call(&self.srv, &mkreq("OPEN", id, 0, 0, &[("flags", 0)], &[], &[]));
        if o.error != 0 {
            return Err(o.error);
        }
        let fh = get(&o.body, 0, "fuse_open_out", "fh");
        let mut data = vec![];
        loop {
            let r = call(&self.srv, &mkreq("READ", id, 0, 0, &[("fh", fh), ("offset", data.len() as u64), ("size", 65536)], &[], &[]));
            if r.error != 0 || r.body.is_empty() {
                break;
            }
            data.extend_from_slice(&r.body);
        }
        let _ = call(&self.srv, &mkreq("RELEASE", id, 0, 0, &[("fh", fh)], &[], &[]));
        Ok(data)
    }

    /// the whole tree as seen through the overlay: path -> description
    pub fn walk(&self) -> BTreeMap<String, String> {
        let mut out = BTreeMap::new();
        fn rec(ov: &Ov, id: u64, rel: &str, out: &mut BTreeMap<String, String>, depth: u32) {
            let names = match ov.listdir(id) {
                Ok(n) => n,
                Err(e) => {
                    out.insert(format!("{}/<listing>", rel), format!("error {}", e));
                    return;
                }
            };
            for n in names {
                if n == b"." || n == b".." {
                    continue;
                }
                let name = String::from_utf8_lossy(&n).to_string();
                let p = format!("{}/{}", rel, name);
                let rep = call(&ov.srv, &mkreq("LOOKUP", id, 0, 0, &[], &[&n], &[]));
                let Some((cid, a)) = entry_of(&rep, 0) else {
                    out.insert(p, format!("listed but lookup answers {}", rep.error));
                    continue;
                };
                let t = a.mode & libc::S_IFMT;
                match t {
                    libc::S_IFDIR => {
                        out.insert(p.clone(), format!("dir perm={:o}", a.mode & 0o7777));
                        if depth < 6 {
                            rec(ov, cid, &p, out, depth + 1);
                        }
                    }
                    libc::S_IFREG => {
                        let data = ov.read_all(cid);
                        out.insert(p, format!("file perm={:o} size={} hash={:?}", a.mode & 0o7777, a.size, data.map(|d| format!("{:016x}/{}", fnv(&d), d.len()))));
                    }
                    libc::S_IFLNK => {
                        let r = call(&ov.srv, &mkreq("READLINK", cid, 0, 0, &[], &[], &[]));
                        out.insert(p, format!("symlink -> {}", String::from_utf8_lossy(&r.body)));
                    }
                    _ => {
                        out.insert(p, format!("special type={:o} perm={:o}", t, a.mode & 0o7777));
                    }
                }
            }
        }
        rec(self, 1, "", &mut out, 0);
        out
    }
}

/// the reference tree walked on the host, in the same notation
pub fn walk_host(root: &str) -> BTreeMap<String, String> {
    let mut out = BTreeMap::new();
    fn rec(base: &str, rel: &str, out: &mut BTreeMap<String, String>) {
        let Ok(rd) = std::fs::read_dir(format!("{}{}", base, rel)) else { return };
        for e in rd.flatten() {
            let name = e.file_name().to_string_lossy().to_string();
            let p = format!("{}/{}", rel, name);
            let full = format!("{}{}", base, p);
            let Ok(st) = sys::lstat(&full) else { continue };
            match st.st_mode & libc::S_IFMT {
                libc::S_IFDIR => {
                    out.insert(p.clone(), format!("dir perm={:o}", st.st_mode & 0o7777));
                    rec(base, &p, out);
                }
                libc::S_IFREG => {
                    let d = std::fs::read(&full).unwrap_or_default();
                    out.insert(p, format!("file perm={:o} size={} hash={:?}", st.st_mode & 0o7777, st.st_size, Ok::<String, i32>(format!("{:016x}/{}", fnv(&d), d.len()))));
                }
                libc::S_IFLNK => {
                    out.insert(p, format!("symlink -> {}", std::fs::read_link(&full).map(|t| t.to_string_lossy().to_string()).unwrap_or_default()));
                }
                t => {
                    out.insert(p, format!("special type={:o} perm={:o}", t, st.st_mode & 0o7777));
                }
            }
        }
    }
    rec(root, "", &mut out);
    out
}

fn diff(a: &BTreeMap<String, String>, b: &BTreeMap<String, String>, an: &str, bn: &str) -> String {
    let mut d = vec![];
    for (k, v) in a {
        match b.get(k) {
            Some(w) if w == v => {}
            Some(w) => d.push(format!("{}: {} [{}] vs {} [{}]", k, an, v, bn, w)),
            None => d.push(format!("{}: only in {} [{}]", k, an, v)),
        }
    }
    for (k, v) in b {
        if !a.contains_key(k) {
            d.push(format!("{}: only in {} [{}]", k, bn, v));
        }
    }
    d.truncate(4);
    d.join("; ")
}

pub const XK: &[&str] = &["user.x", "user.y"];

/// Apply one op through the overlay and to /ref; returns (modifying, touched_lower)
fn apply(ov: &Ov, out: &mut Outcome, op: &OOp, has_upper: bool, lower_has: &dyn Fn(&[u8]) -> bool) -> (bool, bool) {
    let refp = |p: &[u8]| format!("/ov/ref{}", pstr(p));
    let cmp = |out: &mut Outcome, what: &str, rep_err: i32, host: Result<(), i32>, modifying: bool| -> bool {
        if modifying && !has_upper {
            // (v) without an upper layer every modifying operation fails
            if rep_err == 0 {
                out.fail(format!("union/{}/modified-without-upper", what), format!("{} succeeded although there is no upper layer", what));
            }
            return false;
        }
        match (rep_err, host) {
            (0, Ok(())) => true,
            (e, Err(h)) if e != 0 => {
                if e != -h {
                    out.class(format!("errno-differs:{}:{}!={}", what, -e, h));
                }
                false
            }
            (e, h) => {
                out.fail(format!("union/{}/result", what), format!("{}: overlay answered {} but an ordinary file system gives {:?}", what, e, h));
                false
            }
        }
    };
    let split = |p: &[u8]| -> Option<(Vec<u8>, u8)> {
        if p.is_empty() {
            None
        } else {
            Some((p[..p.len() - 1].to_vec(), p[p.len() - 1]))
        }
    };
    let name_of = |i: u8| NAMES[i as usize % NAMES.len()].as_bytes();
    // A FUSE client walks component by component and resolves symbolic links itself: a path whose
    // intermediate component is a symlink never reaches the server as such. The reference tree is
    // driven with path system calls, which WOULD follow it, so such operands are outside the
    // comparison; the overlay only has to refuse the component-wise walk.
    let operands: Vec<&Vec<u8>> = match op {
        OOp::Link(a, b) => vec![a, b],
        OOp::Getattr(a) | OOp::Read(a) | OOp::Readlink(a) | OOp::Mknod(a) | OOp::Unlink(a) | OOp::Rmdir(a) | OOp::Utimens(a) | OOp::Listxattr(a) => vec![a],
        OOp::Create(a, _) | OOp::Mkdir(a, _) | OOp::Symlink(a, _) | OOp::Chmod(a, _) | OOp::Truncate(a, _) | OOp::Setxattr(a, _) | OOp::Getxattr(a, _) | OOp::Removexattr(a, _) => vec![a],
        OOp::Write(a, ..) | OOp::FSetattr(a, ..) => vec![a],
    };
    for p in operands {
        for i in 1..p.len() {
            if matches!(sys::lstat(&refp(&p[..i])), Ok(st) if st.st_mode & libc::S_IFMT == libc::S_IFLNK) {
                if ov.resolve(p).is_ok() {
                    out.fail("union/lookup/through-symlink", format!("{} resolves although {} is a symbolic link", pstr(p), pstr(&p[..i])));
                }
                out.class("skipped:operand-through-symlink");
                return (false, false);
            }
        }
    }
    let host_if_upper = |f: &dyn Fn() -> Result<(), i32>| -> Result<(), i32> {
        if has_upper {
            f()
        } else {
            Err(libc::EROFS)
        }
    };
    match op {
        OOp::Getattr(p) => {
            let host = sys::lstat(&refp(p));
            match (ov.resolve(p), host) {
                (Ok((id, _)), Ok(st)) => {
                    let rep = call(&ov.srv, &mkreq("GETATTR", id, 0, 0, &[], &[], &[]));
                    if let Some(a) = attr_of(&rep) {
                        if a.mode & libc::S_IFMT != st.st_mode & libc::S_IFMT || a.mode & 0o7777 != st.st_mode & 0o7777 || (st.st_mode & libc::S_IFMT == libc::S_IFREG && a.size != st.st_size as u64) {
                            out.fail("union/getattr/attr", format!("{}: overlay says mode {:o} size {}, union has mode {:o} size {}", pstr(p), a.mode, a.size, st.st_mode, st.st_size));
                        }
                    } else {
                        out.fail("union/getattr/result", format!("{}: getattr answered {}", pstr(p), rep.error));
                    }
                }
                (Err(_), Err(_)) => {}
                (Ok(_), Err(h)) => out.fail("union/lookup/phantom", format!("{} resolves through the overlay but the union does not have it ({})", pstr(p), h)),
                (Err(e), Ok(_)) => out.fail("union/lookup/missing", format!("{} is in the union but the overlay answers {}", pstr(p), e)),
            }
            (false, false)
        }
        OOp::Read(p) => {
            if let (Ok((id, a)), Ok(st)) = (ov.resolve(p), sys::lstat(&refp(p))) {
                if a.mode & libc::S_IFMT == libc::S_IFREG && st.st_mode & libc::S_IFMT == libc::S_IFREG {
                    let d = ov.read_all(id);
                    let h = std::fs::read(refp(p)).unwrap_or_default();
                    if d.as_ref().ok() != Some(&h) {
                        out.fail("union/read/data", format!("{}: content read through the overlay differs from the union's", pstr(p)));
                    }
                }
            }
            (false, false)
        }
        OOp::Readlink(p) => {
            if let (Ok((id, a)), Ok(t)) = (ov.resolve(p), std::fs::read_link(refp(p))) {
                if a.mode & libc::S_IFMT == libc::S_IFLNK {
                    let r = call(&ov.srv, &mkreq("READLINK", id, 0, 0, &[], &[], &[]));
                    if r.body != std::os::unix::ffi::OsStrExt::as_bytes(t.as_os_str()) {
                        out.fail("union/readlink/target", format!("{}: link target differs", pstr(p)));
                    }
                }
            }
            (false, false)
        }
        OOp::Create(p, mode) | OOp::Mkdir(p, mode) => {
            let Some((pp, n)) = split(p) else { return (false, false) };
            let Ok((pid, pa)) = ov.resolve(&pp) else { return (false, false) };
            if pa.mode & libc::S_IFMT != libc::S_IFDIR {
                return (false, false);
            }
            let dir = matches!(op, OOp::Mkdir(..));
            let m = (*mode as u32 & 0o777) | 0o600 | if dir { 0o100 } else { 0 };
            let rep = if dir {
                call(&ov.srv, &mkreq("MKDIR", pid, 0, 0, &[("mode", m as u64)], &[name_of(n)], &[]))
            } else {
                call(&ov.srv, &mkreq("CREATE", pid, 0, 0, &[("flags", (libc::O_RDWR | libc::O_EXCL) as u64), ("mode", m as u64)], &[name_of(n)], &[]))
            };
            if !dir && rep.error == 0 {
                let fh = get(&rep.body, ssize("fuse_entry_out"), "fuse_open_out", "fh");
                if let Some((id, _)) = entry_of(&rep, 0) {
                    let _ = call(&ov.srv, &mkreq("RELEASE", id, 0, 0, &[("fh", fh)], &[], &[]));
                }
            }
            let host = host_if_upper(&|| {
                if dir {
                    sys::mkdirat(libc::AT_FDCWD, refp(p).as_bytes(), m)
                } else {
                    sys::openat(libc::AT_FDCWD, refp(p).as_bytes(), libc::O_CREAT | libc::O_EXCL | libc::O_RDWR, m).map(|_| ())
                }
            });
            cmp(out, if dir { "mkdir" } else { "create" }, rep.error, host, true);
            (true, lower_has(p))
        }
        OOp::Mknod(p) => {
            let Some((pp, n)) = split(p) else { return (false, false) };
            let Ok((pid, pa)) = ov.resolve(&pp) else { return (false, false) };
            if pa.mode & libc::S_IFMT != libc::S_IFDIR {
                return (false, false);
            }
            let rep = call(&ov.srv, &mkreq("MKNOD", pid, 0, 0, &[("mode", (libc::S_IFREG | 0o640) as u64)], &[name_of(n)], &[]));
            let host = host_if_upper(&|| sys::mknodat(libc::AT_FDCWD, refp(p).as_bytes(), libc::S_IFREG | 0o640, 0));
            cmp(out, "mknod", rep.error, host, true);
            (true, lower_has(p))
        }
        OOp::Symlink(p, t) => {
            let Some((pp, n)) = split(p) else { return (false, false) };
            let Ok((pid, pa)) = ov.resolve(&pp) else { return (false, false) };
            if pa.mode & libc::S_IFMT != libc::S_IFDIR {
                return (false, false);
            }
            let tgt = ["a", "b/c", "../a", "nonexistent"][*t as usize % 4];
            let rep = call(&ov.srv, &mkreq("SYMLINK", pid, 0, 0, &[], &[name_of(n), tgt.as_bytes()], &[]));
            let host = host_if_upper(&|| sys::symlinkat(tgt.as_bytes(), libc::AT_FDCWD, refp(p).as_bytes()));
            cmp(out, "symlink", rep.error, host, true);
            (true, lower_has(p))
        }
        OOp::Link(src, dst) => {
            let Some((pp, n)) = split(dst) else { return (false, false) };
            let (Ok((sid, sa)), Ok((pid, pa))) = (ov.resolve(src), ov.resolve(&pp)) else { return (false, false) };
            if pa.mode & libc::S_IFMT != libc::S_IFDIR || sa.mode & libc::S_IFMT == libc::S_IFDIR {
                return (false, false);
            }
            let rep = call(&ov.srv, &mkreq("LINK", pid, 0, 0, &[("oldnodeid", sid)], &[name_of(n)], &[]));
            let host = host_if_upper(&|| {
                let s = sys::cstr(refp(src).as_bytes());
                let d = sys::cstr(refp(dst).as_bytes());
                if unsafe { libc::linkat(libc::AT_FDCWD, s.as_ptr(), libc::AT_FDCWD, d.as_ptr(), 0) } < 0 {
                    Err(sys::errno())
                } else {
                    Ok(())
                }
            });
            cmp(out, "link", rep.error, host, true);
            (true, lower_has(src) || lower_has(dst))
        }
        OOp::Unlink(p) | OOp::Rmdir(p) => {
            let Some((pp, n)) = split(p) else { return (false, false) };
            let Ok((pid, pa)) = ov.resolve(&pp) else { return (false, false) };
            if pa.mode & libc::S_IFMT != libc::S_IFDIR {
                return (false, false);
            }
            let dir = matches!(op, OOp::Rmdir(..));
            // a kernel client knows the victim's type from its lookup and answers EISDIR/ENOTDIR itself
            if let Ok((_, ta)) = ov.resolve(p) {
                if (ta.mode & libc::S_IFMT == libc::S_IFDIR) != dir {
                    return (false, false);
                }
            }
            let rep = call(&ov.srv, &mkreq(if dir { "RMDIR" } else { "UNLINK" }, pid, 0, 0, &[], &[name_of(n)], &[]));
            let host = host_if_upper(&|| sys::unlinkat(libc::AT_FDCWD, refp(p).as_bytes(), if dir { libc::AT_REMOVEDIR } else { 0 }));
            cmp(out, if dir { "rmdir" } else { "unlink" }, rep.error, host, true);
            (true, lower_has(p))
        }
        OOp::Write(p, fl, off, len, seed) => {
            let Ok((id, a)) = ov.resolve(p) else { return (false, false) };
            if a.mode & libc::S_IFMT != libc::S_IFREG {
                return (false, false);
            }
            let flags = match fl % 4 {
                0 => libc::O_WRONLY,
                1 => libc::O_RDWR,
                2 => libc::O_WRONLY | libc::O_TRUNC,
                _ => libc::O_WRONLY | libc::O_APPEND,
            };
            let o = call(&ov.srv, &mkreq("OPEN", id, 0, 0, &[("flags", flags as u64)], &[], &[]));
            let hostfd = host_if_upper(&|| Ok(())).and_then(|_| sys::openat(libc::AT_FDCWD, refp(p).as_bytes(), flags, 0));
            if !cmp(out, "open-for-write", o.error, hostfd.as_ref().map(|_| ()).map_err(|e| *e), true) {
                if o.error == 0 {
                    let fh = get(&o.body, 0, "fuse_open_out", "fh");
                    let _ = call(&ov.srv, &mkreq("RELEASE", id, 0, 0, &[("fh", fh)], &[], &[]));
                }
                return (true, lower_has(p));
            }
            let fh = get(&o.body, 0, "fuse_open_out", "fh");
            let hfd = hostfd.unwrap();
            let data = filedata(*seed, *len as usize % 5000);
            let off = if flags & libc::O_APPEND != 0 { sys::fstat(sys::raw(&hfd)).map(|s| s.st_size as u64).unwrap_or(0) } else { (*off % 9000) as u64 };
            let w = call(&ov.srv, &mkreq("WRITE", id, 0, 0, &[("fh", fh), ("offset", off), ("size", data.len() as u64), ("flags", flags as u64)], &[], &data));
            let hw = sys::pwrite(sys::raw(&hfd), &data, off);
            cmp(out, "write", w.error, hw.map(|_| ()), true);
            let _ = call(&ov.srv, &mkreq("RELEASE", id, 0, 0, &[("fh", fh)], &[], &[]));
            (true, lower_has(p))
        }
        OOp::Chmod(p, m) => {
            let Ok((id, a)) = ov.resolve(p) else { return (false, false) };
            if a.mode & libc::S_IFMT == libc::S_IFLNK {
                return (false, false);
            }
            let m = (*m as u32 & 0o777) | if a.mode & libc::S_IFMT == libc::S_IFDIR { 0o700 } else { 0o600 };
            let rep = call(&ov.srv, &mkreq("SETATTR", id, 0, 0, &[("valid", c("FATTR_MODE")), ("mode", m as u64)], &[], &[]));
            let host = host_if_upper(&|| sys::chmod_path(refp(p).as_bytes(), m));
            cmp(out, "chmod", rep.error, host, true);
            (true, lower_has(p))
        }
        OOp::Truncate(p, s) => {
            let Ok((id, a)) = ov.resolve(p) else { return (false, false) };
            if a.mode & libc::S_IFMT != libc::S_IFREG {
                return (false, false);
            }
            let rep = call(&ov.srv, &mkreq("SETATTR", id, 0, 0, &[("valid", c("FATTR_SIZE")), ("size", *s as u64 % 9000)], &[], &[]));
            let host = host_if_upper(&|| sys::openat(libc::AT_FDCWD, refp(p).as_bytes(), libc::O_WRONLY, 0).and_then(|f| sys::ftruncate(sys::raw(&f), *s as i64 % 9000)));
            cmp(out, "truncate", rep.error, host, true);
            (true, lower_has(p))
        }
        OOp::FSetattr(p, sel, what, v) => {
            let Ok((id, a)) = ov.resolve(p) else { return (false, false) };
            if a.mode & libc::S_IFMT != libc::S_IFREG {
                return (false, false);
            }
            let oflags = [libc::O_RDONLY, libc::O_RDWR, libc::O_WRONLY][*sel as usize % 3];
            // ftruncate(fd) needs a writable descriptor; fchmod/futimens work on any
            let what = if oflags == libc::O_RDONLY { *what % 2 } else { *what % 3 };
            if oflags != libc::O_RDONLY && !has_upper {
                return (false, false);
            }
            let o = call(&ov.srv, &mkreq("OPEN", id, 0, 0, &[("flags", oflags as u64)], &[], &[]));
            if o.error != 0 {
                return (oflags != libc::O_RDONLY, lower_has(p));
            }
            let fh = get(&o.body, 0, "fuse_open_out", "fh");
            let m = (*v as u32 & 0o777) | 0o600;
            let (valid, host): (u64, Result<(), i32>) = match what {
                0 => (c("FATTR_MODE"), host_if_upper(&|| sys::chmod_path(refp(p).as_bytes(), m))),
                1 => (c("FATTR_MTIME") | c("FATTR_ATIME"), host_if_upper(&|| Ok(()))),
                _ => (c("FATTR_SIZE"), host_if_upper(&|| sys::openat(libc::AT_FDCWD, refp(p).as_bytes(), libc::O_WRONLY, 0).and_then(|f| sys::ftruncate(sys::raw(&f), *v as i64 % 9000)))),
            };
            let rep = call(
                &ov.srv,
                &mkreq("SETATTR", id, 0, 0, &[("valid", valid | c("FATTR_FH")), ("fh", fh), ("mode", m as u64), ("size", *v as u64 % 9000), ("mtime", 1000), ("atime", 1000)], &[], &[]),
            );
            cmp(out, "fsetattr", rep.error, host, true);
            let _ = call(&ov.srv, &mkreq("RELEASE", id, 0, 0, &[("fh", fh)], &[], &[]));
            out.class(format!("fsetattr:{}", ["rdonly", "rdwr", "wronly"][*sel as usize % 3]));
            (true, lower_has(p))
        }
        OOp::Utimens(p) => {
            let Ok((id, a)) = ov.resolve(p) else { return (false, false) };
            if a.mode & libc::S_IFMT == libc::S_IFLNK {
                return (false, false);
            }
            let rep = call(&ov.srv, &mkreq("SETATTR", id, 0, 0, &[("valid", c("FATTR_MTIME") | c("FATTR_ATIME")), ("mtime", 1000), ("atime", 1000)], &[], &[]));
            let host = host_if_upper(&|| Ok(()));
            cmp(out, "utimens", rep.error, host, true);
            (true, lower_has(p))
        }
        OOp::Setxattr(p, k) | OOp::Removexattr(p, k) => {
            let Ok((id, a)) = ov.resolve(p) else { return (false, false) };
            let t = a.mode & libc::S_IFMT;
            if t != libc::S_IFREG && t != libc::S_IFDIR {
                return (false, false);
            }
            let key = XK[*k as usize % XK.len()];
            let set = matches!(op, OOp::Setxattr(..));
            let rep = if set {
                call(&ov.srv, &mkreq("SETXATTR", id, 0, 0, &[("size", 2)], &[key.as_bytes()], b"vv"))
            } else {
                call(&ov.srv, &mkreq("REMOVEXATTR", id, 0, 0, &[], &[key.as_bytes()], &[]))
            };
            let host = host_if_upper(&|| if set { sys::lsetxattr(refp(p).as_bytes(), key.as_bytes(), b"vv", 0) } else { sys::removexattr(refp(p).as_bytes(), key.as_bytes()) });
            cmp(out, if set { "setxattr" } else { "removexattr" }, rep.error, host, true);
            (true, lower_has(p))
        }
        OOp::Getxattr(p, k) => {
            let Ok((id, a)) = ov.resolve(p) else { return (false, false) };
            let t = a.mode & libc::S_IFMT;
            if t != libc::S_IFREG && t != libc::S_IFDIR {
                return (false, false);
            }
            let key = XK[*k as usize % XK.len()];
            let rep = call(&ov.srv, &mkreq("GETXATTR", id, 0, 0, &[("size", 64)], &[key.as_bytes()], &[]));
            let host = sys::getxattr(refp(p).as_bytes(), key.as_bytes(), 64);
            if cmp(out, "getxattr", rep.error, host.as_ref().map(|_| ()).map_err(|e| *e), false) && rep.body != host.unwrap().1 {
                out.fail("union/getxattr/value", format!("{}: xattr value differs", pstr(p)));
            }
            (false, false)
        }
        OOp::Listxattr(p) => {
            let Ok((id, a)) = ov.resolve(p) else { return (false, false) };
            let t = a.mode & libc::S_IFMT;
            if t != libc::S_IFREG && t != libc::S_IFDIR {
                return (false, false);
            }
            let rep = call(&ov.srv, &mkreq("LISTXATTR", id, 0, 0, &[("size", 512)], &[], &[]));
            if rep.error == 0 {
                let mut got: Vec<&[u8]> = rep.body.split(|b| *b == 0).filter(|n| !n.is_empty() && n.starts_with(b"user.") && !OPAQUE_KEYS.iter().any(|o| o.as_bytes() == *n)).collect();
                got.sort();
                let host = sys::lgetxattr_all(&refp(p));
                let mut want: Vec<&[u8]> = host.iter().map(|(k, _)| &k[..]).filter(|k| k.starts_with(b"user.")).collect();
                want.sort();
                if got != want {
                    out.fail("union/listxattr/names", format!("{}: xattr names differ", pstr(p)));
                }
            }
            (false, false)
        }
    }
}

pub fn setup(cs: &Case) -> Vec<BTreeMap<String, String>> {
    sys::rm_rf("/ov");
    std::fs::create_dir_all("/ov/work").unwrap();
    std::fs::create_dir_all("/ov/mnt").unwrap();
    std::fs::create_dir_all("/ov/ref").unwrap();
    let _ = sys::chmod_path(b"/ov/ref", 0o755);
    for (i, l) in cs.layers.iter().enumerate() {
        materialise_layer(&layer_dir(i), l);
    }
    let dirs: Vec<String> = (0..cs.layers.len()).map(layer_dir).collect();
    union_into("/ov/ref", &dirs, "");
    // snapshots of the lower layers
    let first_lower = if cs.has_upper { 1 } else { 0 };
    (first_lower..cs.layers.len()).map(|i| sys::snapshot(&layer_dir(i), true)).collect()
}

pub fn run_case(cs: &Case, restart_each_prefix: bool) -> Outcome {
    let mut out = Outcome::default();
    if cs.layers.is_empty() || (cs.has_upper && cs.layers.len() < 2) {
        return out;
    }
    let lower_before = setup(cs);
    let first_lower = if cs.has_upper { 1 } else { 0 };
    let ov = match Ov::start(cs.has_upper, cs.layers.len()) {
        Ok(o) => o,
        Err(e) => {
            out.fail("ov/start", e);
            return out;
        }
    };
    let lower_dirs: Vec<String> = (first_lower..cs.layers.len()).map(layer_dir).collect();
    let lower_has = |p: &[u8]| lower_dirs.iter().any(|l| sys::lstat(&format!("{}{}", l, pstr(p))).is_ok());
    // the initial view is the union
    let w0 = ov.walk();
    let r0 = walk_host("/ov/ref");
    if w0 != r0 {
        out.fail("union/initial-view", format!("initial view differs from the overlayfs union: {}", diff(&w0, &r0, "overlay", "union")));
    }
    let mut touched_lower = false;
    let mut events = 0;
    for (i, op) in cs.ops.iter().enumerate() {
        if !out.fails.is_empty() {
            break;
        }
        let (modifying, tl) = apply(&ov, &mut out, op, cs.has_upper, &lower_has);
        if modifying && tl {
            touched_lower = true;
            events += 1;
        }
        if !out.fails.is_empty() {
            break;
        }
        let last = i + 1 == cs.ops.len();
        if modifying || last {
            let w = ov.walk();
            let r = walk_host("/ov/ref");
            if w != r {
                out.fail(
                    format!("union/view-after-{}", opname(op)),
                    format!("after op {} ({:?}) the overlay view differs from the union updated like an ordinary file system: {}", i, op, diff(&w, &r, "overlay", "union")),
                );
                break;
            }
            if restart_each_prefix && cs.has_upper {
                // C11: a freshly started overlay over the same directories shows the same tree
                match Ov::start(cs.has_upper, cs.layers.len()) {
                    Ok(ov2) => {
                        let w2 = ov2.walk();
                        if w2 != w {
                            out.fail(
                                format!("restart/view-after-{}", opname(op)),
                                format!("after op {} ({:?}) a freshly started overlay differs from the running one: {}", i, op, diff(&w2, &w, "restarted", "running")),
                            );
                            break;
                        }
                    }
                    Err(e) => {
                        out.fail("restart/start-failed", e);
                        break;
                    }
                }
            }
        }
    }
    // (iv) no byte, name, mode or xattr of any lower layer changed
    for (k, i) in (first_lower..cs.layers.len()).enumerate() {
        let now = sys::snapshot(&layer_dir(i), true);
        if now != lower_before[k] {
            out.fail("union/lower-modified", format!("lower layer {} changed: {}", i, diff(&now, &lower_before[k], "now", "before")));
            break;
        }
    }
    out.nontrivial = touched_lower;
    if touched_lower {
        out.class("ov:modified-name-present-in-lower");
    }
    if !cs.has_upper {
        out.class("ov:no-upper");
    }
    out.class(format!("ov:lowers={}", cs.layers.len() - first_lower));
    let _ = events;
    out
}

fn opname(op: &OOp) -> &'static str {
    match op {
        OOp::Getattr(_) => "getattr",
        OOp::Read(_) => "read",
        OOp::Readlink(_) => "readlink",
        OOp::Create(..) => "create",
        OOp::Mkdir(..) => "mkdir",
        OOp::Mknod(_) => "mknod",
        OOp::Symlink(..) => "symlink",
        OOp::Link(..) => "link",
        OOp::Unlink(_) => "unlink",
        OOp::Rmdir(_) => "rmdir",
        OOp::Write(..) => "write",
        OOp::Chmod(..) => "chmod",
        OOp::Truncate(..) => "truncate",
        OOp::Utimens(_) => "utimens",
        OOp::Setxattr(..) => "setxattr",
        OOp::Getxattr(..) => "getxattr",
        OOp::Listxattr(_) => "listxattr",
        OOp::Removexattr(..) => "removexattr",
        OOp::FSetattr(..) => "fsetattr",
    }
}

pub fn path_strategy() -> BoxedStrategy<Vec<u8>> {
    proptest::collection::vec(0u8..NAMES.len() as u8, 1..4).boxed()
}

fn layer_strategy() -> BoxedStrategy<Vec<LEnt>> {
    let kind = || {
        prop_oneof![
            5 => (any::<u32>(), prop_oneof![Just(0u16), Just(1), Just(4096), 0u16..9000], any::<u16>()).prop_map(|(seed, len, mode)| LKind::File { seed, len, mode }),
            5 => any::<u16>().prop_map(|mode| LKind::Dir { mode }),
            1 => any::<u8>().prop_map(LKind::Symlink),
            3 => Just(LKind::Whiteout),
            2 => any::<u8>().prop_map(LKind::OpaqueDir),
        ]
    };
    // entries at random paths, plus children placed INSIDE directories (plain and opaque) of the
    // same layer: populated opaque / merged directories are what deletes and re-creates act on
    (
        proptest::collection::vec((path_strategy(), kind()).prop_map(|(path, kind)| LEnt { path, kind }), 0..10),
        proptest::collection::vec((any::<u8>(), 0u8..NAMES.len() as u8, kind()), 0..5),
    )
        .prop_map(|(mut ents, extras)| {
            for (sel, name, kind) in extras {
                let dirs: Vec<Vec<u8>> = ents.iter().filter(|e| matches!(e.kind, LKind::Dir { .. } | LKind::OpaqueDir(_)) && e.path.len() < 3).map(|e| e.path.clone()).collect();
                if dirs.is_empty() {
                    break;
                }
                let mut path = dirs[sel as usize % dirs.len()].clone();
                path.push(name);
                ents.push(LEnt { path, kind });
            }
            ents
        })
        .boxed()
}

/// paths for operations: half of them aim at (or just below / next to) something a layer contains
fn op_path(known: Vec<Vec<u8>>) -> BoxedStrategy<Vec<u8>> {
    if known.is_empty() {
        return path_strategy();
    }
    let k2 = known.clone();
    prop_oneof![
        3 => (0..known.len()).prop_map(move |i| known[i].clone()),
        1 => (0..k2.len(), 0u8..NAMES.len() as u8).prop_map(move |(i, n)| {
            let mut p = k2[i].clone();
            if p.len() < 3 {
                p.push(n);
            } else {
                *p.last_mut().unwrap() = n;
            }
            p
        }),
        3 => path_strategy(),
    ]
    .boxed()
}

pub fn op_strategy(rewrite_heavy: bool) -> BoxedStrategy<OOp> {
    op_strategy_on(rewrite_heavy, vec![])
}

pub fn op_strategy_on(rewrite_heavy: bool, known: Vec<Vec<u8>>) -> BoxedStrategy<OOp> {
    let p = move || op_path(known.clone());
    let w = if rewrite_heavy { 3 } else { 1 };
    prop_oneof![
        2 => p().prop_map(OOp::Getattr),
        2 => p().prop_map(OOp::Read),
        1 => p().prop_map(OOp::Readlink),
        3 * w => (p(), any::<u16>()).prop_map(|(a, m)| OOp::Create(a, m)),
        3 * w => (p(), any::<u16>()).prop_map(|(a, m)| OOp::Mkdir(a, m)),
        1 => p().prop_map(OOp::Mknod),
        1 => (p(), any::<u8>()).prop_map(|(a, t)| OOp::Symlink(a, t)),
        2 => (p(), p()).prop_map(|(a, b)| OOp::Link(a, b)),
        4 * w => p().prop_map(OOp::Unlink),
        4 * w => p().prop_map(OOp::Rmdir),
        4 => (p(), any::<u8>(), any::<u16>(), any::<u16>(), any::<u32>()).prop_map(|(a, f, o, l, s)| OOp::Write(a, f, o, l, s)),
        2 => (p(), any::<u16>()).prop_map(|(a, m)| OOp::Chmod(a, m)),
        2 => (p(), any::<u16>()).prop_map(|(a, s)| OOp::Truncate(a, s)),
        1 => p().prop_map(OOp::Utimens),
        2 => (p(), any::<u8>()).prop_map(|(a, k)| OOp::Setxattr(a, k)),
        1 => (p(), any::<u8>()).prop_map(|(a, k)| OOp::Getxattr(a, k)),
        1 => p().prop_map(OOp::Listxattr),
        1 => (p(), any::<u8>()).prop_map(|(a, k)| OOp::Removexattr(a, k)),
        3 => (p(), 0u8..3, 0u8..3, any::<u16>()).prop_map(|(a, s, w, v)| OOp::FSetattr(a, s, w, v)),
    ]
    .boxed()
}

pub fn strategy(always_upper: bool, rewrite_heavy: bool, max_ops: usize) -> BoxedStrategy<Case> {
    (if always_upper { Just(true).boxed() } else { prop::bool::weighted(0.85).boxed() }, proptest::collection::vec(layer_strategy(), 1..4), layer_strategy())
        .prop_flat_map(move |(has_upper, lowers, upper)| {
            let mut layers = vec![];
            if has_upper {
                layers.push(upper);
            }
            layers.extend(lowers);
            let mut known: Vec<Vec<u8>> = layers.iter().flatten().map(|e| e.path.clone()).collect();
            known.sort();
            known.dedup();
            (Just(has_upper), Just(layers), proptest::collection::vec(op_strategy_on(rewrite_heavy, known), 1..max_ops))
        })
        .prop_map(|(has_upper, layers, ops)| Case { has_upper, layers, ops })
        .boxed()
}

pub struct C10;

fn run10(cs: &Case) -> Outcome {
    let mut o = run_case(cs, false);
    o.fails.retain(|f| !f.sig.starts_with("restart/"));
    o
}

impl Prop for C10 {
    fn id(&self) -> &'static str {
        "C10"
    }
    fn meta(&self) -> Meta {
        Meta {
            rule: "1 upper (85%) + 1-3 lower layers generated over names {a,b,c,d} depth <= 3 with files, directories, symlinks, whiteouts (char 0/0) and opaque directories (all three xattr spellings); same-named entries of equal and different kinds across layers are frequent because the universe is tiny; histories (1..25 ops) of getattr/read/readlink/create/mkdir/mknod/symlink/link/unlink/rmdir/open+write+release(WR,RDWR,TRUNC,APPEND)/chmod/truncate/utimens/xattr ops addressed by path (LOOKUP walks); oracle: (i) a pure union function over the layer directories materialises the expected tree /ref, (ii) every op is also applied to /ref with plain system calls, results compared, (iii) after every modifying op the tree walked THROUGH the overlay (readdir, lookup, read, readlink) equals /ref walked on the host (names, types, permission bits, sizes, content, link targets), (iv) content+metadata snapshot of every lower directory identical before/after, (v) without an upper layer every modifying op fails; non-trivial = a modifying op on a name present in a lower layer; distinct = distinct serialized case",
            assumptions: vec![
                "not compared: inode numbers, directory nlink/size, hard-link identity across copy-up, timestamps, owners (all requests as root)".into(),
                "special files other than whiteouts are not placed in layers (copy-up of devices/FIFOs is outside the property's list); rename is not generated".into(),
                "errno values may differ from ext4's as long as success/failure agree (counted as class errno-differs)".into(),
            ],
            ..Meta::default()
        }
    }
    fn worker(&self, w: &WorkerCtx) -> WorkerResult {
        sys::enter();
        set_max_shrink_iters(600);
        let n = w.share(w.tier.pick(6_000, 200_000));
        drive(w, "C10", "history", n, strategy(false, false, 25), run10)
    }
    fn replay(&self, _kind: &str, case: &Value) -> Vec<Fail> {
        sys::enter();
        run10(&serde_json::from_value(case.clone()).expect("case")).fails
    }
}

pub struct C11;

fn run11(cs: &Case) -> Outcome {
    let mut o = run_case(cs, true);
    // C11 owns the restart clause and the copy-up content/mode part of the view comparison
    o.fails.retain(|f| f.sig.starts_with("restart/") || f.sig.starts_with("union/view-after") || f.sig.starts_with("ov/") || f.sig.starts_with("panic/"));
    o
}

impl Prop for C11 {
    fn id(&self) -> &'static str {
        "C11"
    }
    fn meta(&self) -> Meta {
        Meta {
            rule: "C10's cases, always with an upper layer, op mix weighted to delete / re-create / modify lower objects (unlink then create, rmdir then mkdir over populated lower directories, chmod/truncate/append of lower files, nested parents that exist only in lowers); after EVERY modifying prefix a second OverlayFs with fresh PassthroughFs layers is started over the same directories and walked: its tree must equal the running instance's tree, which must equal the reference tree (so copied-up files keep type, permission bits, full prior content plus the modification, link targets, and parents created on the way keep their modes); non-trivial = a restart after a modification of a name present in a lower layer; distinct = distinct serialized case",
            assumptions: vec!["restart = new OverlayFs + new PassthroughFs layers over the same upper/lower directories (no crash of the host file system is modelled)".into()],
            ..Meta::default()
        }
    }
    fn worker(&self, w: &WorkerCtx) -> WorkerResult {
        sys::enter();
        set_max_shrink_iters(600);
        let n = w.share(w.tier.pick(4_000, 120_000));
        drive(w, "C11", "history", n, strategy(true, true, 16), run11)
    }
    fn replay(&self, _kind: &str, case: &Value) -> Vec<Fail> {
        sys::enter();
        run11(&serde_json::from_value(case.clone()).expect("case")).fails
    }
}

#[allow(dead_code)]
fn _u(_: Rep) {}
