//! C01 — hostile request bytes never crash the server nor corrupt the reply stream.
use crate::codec::{self, c, ssize};
use crate::engine::*;
use crate::mockfs::*;
use crate::props::c02::chain_strategy;
use crate::props::c03::{err_strategy, ok_result};
use crate::reqgen::{self, Req, OPS};
use crate::transport::{self, ChainSpec};
use fuse_backend_rs::api::server::Server;
use proptest::prelude::*;
use serde::{Deserialize, Serialize};
use serde_json::Value;
use std::sync::Arc;

#[derive(Clone, Debug, Serialize, Deserialize)]
pub enum Mutn {
    SetLen(u32),
    SetOpcode(u32),
    TruncateAt(u16),
    Append(#[serde(with = "hexbytes")] Vec<u8>),
    /// overwrite the u32 at (frac of body, 4-aligned) with value
    SetU32(u16, u32),
    StripNul,
    ZeroTail(u8),
}

#[derive(Clone, Debug, Serialize, Deserialize)]
pub enum Src {
    Well(Req),
    Mut(Req, Vec<Mutn>),
    Raw(#[serde(with = "hexbytes")] Vec<u8>),
}

#[derive(Clone, Debug, Serialize, Deserialize)]
pub enum Cap {
    Exact(u32),
    /// room + delta
    Rel(i32),
}

#[derive(Clone, Debug, Serialize, Deserialize)]
pub struct Case {
    pub src: Src,
    pub cap: Cap,
    pub virtio: Option<ChainSpec>,
    pub res: MockRes,
    pub vu: bool,
}

pub struct C01;

fn lens() -> BoxedStrategy<u32> {
    prop_oneof![
        Just(0u32), Just(1), Just(39), Just(40), Just(41), Just((1 << 20) + 4096), Just((1 << 20) + 4097), Just((1 << 20) + 4095),
        Just(u32::MAX), Just(u32::MAX - 1), Just(1 << 31), any::<u32>(), 0u32..300
    ]
    .boxed()
}
fn opcodes() -> BoxedStrategy<u32> {
    prop_oneof![
        Just(0u32), Just(7), Just(19), Just(47), Just(50), Just(51), Just(52), Just(1 << 20), Just(26 << 24), Just(u32::MAX), Just(4096),
        0u32..56, any::<u32>(), Just(2), Just(42)
    ]
    .boxed()
}
fn u32_extremes() -> BoxedStrategy<u32> {
    prop_oneof![Just(0u32), Just(1), Just(2), Just((1 << 31) - 1), Just(1 << 31), Just(u32::MAX), Just(u32::MAX - 1), Just(65536), Just(65537), Just(1 << 20), Just((1 << 20) + 1), Just(1 << 16), 0u32..70000, any::<u32>()].boxed()
}

fn mutn() -> BoxedStrategy<Mutn> {
    prop_oneof![
        3 => lens().prop_map(Mutn::SetLen),
        3 => opcodes().prop_map(Mutn::SetOpcode),
        3 => any::<u16>().prop_map(Mutn::TruncateAt),
        2 => proptest::collection::vec(any::<u8>(), 1..64).prop_map(Mutn::Append),
        5 => (any::<u16>(), u32_extremes()).prop_map(|(a, b)| Mutn::SetU32(a, b)),
        2 => Just(Mutn::StripNul),
        1 => (1u8..40).prop_map(Mutn::ZeroTail),
    ]
    .boxed()
}

fn any_res() -> BoxedStrategy<MockRes> {
    let ops: Vec<BoxedStrategy<MockRes>> = ["LOOKUP", "GETATTR", "READ", "READDIR", "GETXATTR", "IOCTL", "OPEN", "CREATE", "STATFS", "READLINK"]
        .iter()
        .map(|o| ok_result(o, 65536))
        .collect();
    prop_oneof![
        4 => Just(MockRes::Default),
        3 => err_strategy().prop_map(MockRes::Err),
        4 => proptest::strategy::Union::new(ops),
        1 => proptest::collection::vec(any::<u8>(), 0..5000).prop_map(|data| MockRes::Read { data, mode: ReadMode::PartialThenErr }),
    ]
    .boxed()
}

fn caps() -> BoxedStrategy<Cap> {
    prop_oneof![
        4 => (0u32..=160).prop_map(Cap::Exact),
        1 => prop_oneof![Just(4095u32), Just(4096), Just((1 << 20) + 4096)].prop_map(Cap::Exact),
        4 => Just(Cap::Rel(0)),
        2 => Just(Cap::Rel(64)),
        2 => prop_oneof![Just(-1i32), Just(-16), Just(-17), Just(15), Just(16), Just(1)].prop_map(Cap::Rel),
    ]
    .boxed()
}

fn strategy(tier: Tier) -> BoxedStrategy<Case> {
    let (mp, mn) = tier.pick((20000usize, 3000usize), (1 << 20, 1 << 20));
    let well = reqgen::any_req(mp, mn).prop_flat_map(|r| {
        let op: &'static str = OPS.iter().find(|o| o.op == r.op).unwrap().op;
        (Just(r), prop_oneof![5 => ok_result(op, 65536), 2 => err_strategy().prop_map(MockRes::Err), 1 => Just(MockRes::Default)])
    });
    let src = prop_oneof![
        4 => well.clone().prop_map(|(r, res)| (Src::Well(r), res)),
        6 => (well, proptest::collection::vec(mutn(), 1..4)).prop_map(|((r, res), m)| (Src::Mut(r, m), res)),
        2 => (prop_oneof![4 => proptest::collection::vec(any::<u8>(), 0..256), 1 => proptest::collection::vec(any::<u8>(), 0..65536)], any_res())
            .prop_map(|(b, res)| (Src::Raw(b), res)),
    ];
    (src, caps(), prop_oneof![1 => Just(None), 1 => chain_strategy().prop_map(Some)], any::<bool>())
        .prop_map(|((src, res), cap, virtio, vu)| Case { src, cap, virtio, res, vu })
        .boxed()
}

pub fn strategy_pub(tier: Tier) -> BoxedStrategy<Case> {
    strategy(tier)
}

/// Seed files in the byte layout of fuzz/fuzz/fuzz_targets/c01_msg.rs (raw mode, fusedev, Default result)
pub fn write_corpus(dir: &str, n: usize) {
    use proptest::strategy::ValueTree;
    use proptest::test_runner::{Config, RngAlgorithm, TestRng, TestRunner};
    std::fs::create_dir_all(dir).unwrap();
    let mut runner = TestRunner::new_with_rng(Config::default(), TestRng::from_seed(RngAlgorithm::ChaCha, &[7u8; 32]));
    let st = strategy(Tier::Quick);
    let mut i = 0;
    while i < n {
        let c = st.new_tree(&mut runner).unwrap().current();
        let b = materialise(&c.src);
        if b.len() > 3000 {
            continue;
        }
        let mut f = vec![if i % 2 == 0 { 240u8 } else { 170 }, 0, 0, 0, 0];
        f.extend_from_slice(&b);
        std::fs::write(format!("{}/seed-{:04}", dir, i), f).unwrap();
        i += 1;
    }
}

pub fn materialise(src: &Src) -> Vec<u8> {
    match src {
        Src::Well(r) => r.encode(),
        Src::Raw(b) => b.clone(),
        Src::Mut(r, ms) => {
            let mut b = r.encode();
            for m in ms {
                match m {
                    Mutn::SetLen(v) => {
                        if b.len() >= 4 {
                            b[0..4].copy_from_slice(&v.to_le_bytes());
                        }
                    }
                    Mutn::SetOpcode(v) => {
                        if b.len() >= 8 {
                            b[4..8].copy_from_slice(&v.to_le_bytes());
                        }
                    }
                    Mutn::TruncateAt(f) => {
                        let n = pick_idx(*f, b.len() + 1);
                        b.truncate(n);
                    }
                    Mutn::Append(x) => b.extend_from_slice(x),
                    Mutn::SetU32(f, v) => {
                        if b.len() >= 44 {
                            let words = (b.len() - 40) / 4;
                            let at = 40 + 4 * pick_idx(*f, words);
                            b[at..at + 4].copy_from_slice(&v.to_le_bytes());
                        }
                    }
                    Mutn::StripNul => {
                        while b.len() > 40 && *b.last().unwrap() == 0 {
                            b.pop();
                        }
                    }
                    Mutn::ZeroTail(n) => {
                        let n = (*n as usize).min(b.len().saturating_sub(40));
                        let l = b.len();
                        for x in &mut b[l - n..] {
                            *x = 0;
                        }
                    }
                }
            }
            b
        }
    }
}

fn room_of(src: &Src) -> usize {
    match src {
        Src::Well(r) | Src::Mut(r, _) => 16 + r.reply_room(),
        Src::Raw(_) => 16 + 128,
    }
}

pub fn run(cs: &Case) -> Outcome {
    let mut out = Outcome::default();
    let bytes = materialise(&cs.src);
    let room = room_of(&cs.src);
    let cap = match cs.cap {
        Cap::Exact(n) => n as usize,
        Cap::Rel(d) => (room as i64 + d as i64).max(0) as usize,
    };
    let fs = Arc::new(MockFs::new(cs.res.clone()));
    let srv = Server::new(fs.clone());
    let d = match &cs.virtio {
        None => transport::serve_fusedev(&srv, &bytes, cap, cs.vu),
        Some(spec) => {
            let mut s = spec.clone();
            s.fit_writable(cap);
            transport::serve_virtio(&srv, &bytes, &s, cs.vu).0
        }
    };
    let opcode = if bytes.len() >= 8 { u32::from_le_bytes([bytes[4], bytes[5], bytes[6], bytes[7]]) } else { u32::MAX };
    let unique = if bytes.len() >= 16 { u64::from_le_bytes(bytes[8..16].try_into().unwrap()) } else { 0 };
    let opname = OPS.iter().find(|o| codec::op(o.op) == opcode).map(|o| o.op).unwrap_or("?");
    let handler_ran = !fs.calls().is_empty();
    let srcname = match &cs.src {
        Src::Well(_) => "well",
        Src::Mut(..) => "mutated",
        Src::Raw(_) => "raw",
    };
    out.class(format!("src:{}", srcname));
    out.class(if cs.virtio.is_some() { "transport:virtio" } else { "transport:fusedev" });
    out.class(format!("op:{}", opname));
    out.class(format!("replies:{}", d.replies.len()));
    out.class(if d.ret.is_ok() { "ret:ok" } else { "ret:err" });
    if cap < 16 {
        out.class("cap:<16");
    } else if cap < room {
        out.class("cap:<room");
    } else {
        out.class("cap:>=room");
    }
    // non-trivial: got past the header (handler ran or a specific reject path answered / refused)
    out.nontrivial = bytes.len() >= 40 && (handler_ran || !d.replies.is_empty() || opname != "?");
    out.fails.extend(d.fails.clone());
    // the filesystem itself put bytes into the reply area and THEN failed: the error reply is the one
    // message, the bytes behind it stay in the (device-writable) buffers, which virtio permits
    let partial = matches!(cs.res, MockRes::Read { mode: ReadMode::PartialThenErr, .. }) || fs.dir_returns.lock().unwrap().iter().any(|r| *r == crate::mockfs::DIR_FAILED || *r == -1);
    // O2: at most one reply
    if d.replies.len() > 1 {
        out.fail(format!("reply/count:{}/{}", d.replies.len(), opname), format!("{} replies emitted for one request", d.replies.len()));
    }
    if d.extra_after_reply && !partial {
        out.fail(format!("reply/virtio-stray-bytes/{}", opname), "guest reply memory modified outside the single reply message");
    }
    // O4: forget / batch_forget never answer
    if (opcode == c("FUSE_FORGET") as u32 || opcode == c("FUSE_BATCH_FORGET") as u32) && (!d.replies.is_empty() || d.extra_after_reply) {
        out.fail(format!("reply/forget-answered/{}", opname), "FORGET/BATCH_FORGET produced a reply");
    }
    // O3: completeness
    for rep in &d.replies {
        match codec::parse_reply(rep) {
            None => out.fail(format!("reply/short/{}", opname), format!("{}-byte reply", rep.len())),
            Some(r) => {
                if r.len as usize != rep.len() {
                    out.fail(format!("reply/len/{}", opname), format!("header len {} but {} bytes emitted", r.len, rep.len()));
                }
                if r.unique != unique {
                    out.fail(format!("reply/unique/{}", opname), format!("unique {:#x}, request {:#x}", r.unique, unique));
                }
                if !(r.error == 0 || (r.error >= -4095 && r.error <= -1)) {
                    out.fail(format!("reply/error-range/{}", opname), format!("error field {}", r.error));
                }
                if rep.len() > cap {
                    out.fail(format!("reply/exceeds-capacity/{}", opname), format!("{} > {}", rep.len(), cap));
                }
            }
        }
    }
    if let Ok(n) = d.ret {
        if n > 0 {
            if d.replies.len() != 1 {
                out.fail(format!("reply/ret-without-reply/{}", opname), format!("handle_message returned Ok({}) but {} replies were emitted", n, d.replies.len()));
            } else if d.replies[0].len() != n {
                out.fail(format!("reply/ret-len/{}", opname), format!("handle_message returned Ok({}) but the reply has {} bytes", n, d.replies[0].len()));
            }
        }
    }
    // O5: well-formed request with sufficient room
    if let Src::Well(r) = &cs.src {
        let def = reqgen::opdef(&r.op);
        let needs = def.replies || (r.op == "NOTIFY_REPLY" && matches!(cs.res, MockRes::Err(_)));
        if cap >= room && needs && d.replies.len() != 1 {
            out.fail(
                format!("reply/missing/{}", r.op),
                format!("well-formed {} with {} bytes of reply room produced {} replies (ret {:?})", r.op, cap, d.replies.len(), d.ret),
            );
        }
        if !needs && !d.replies.is_empty() && r.op != "NOTIFY_REPLY" {
            out.fail(format!("reply/unexpected/{}", r.op), "reply to an opcode that must not be answered");
        }
    }
    let _ = ssize;
    out
}

impl Prop for C01 {
    fn id(&self) -> &'static str {
        "C01"
    }
    fn meta(&self) -> Meta {
        Meta {
            rule: "request bytes from (G1) well-formed requests of all 47 opcodes, (G2) 1-3 stacked mutations of G1 (length-field lies, opcode holes, truncation, appended junk, any body u32 overwritten by an extreme, stripped NULs, zeroed tail), (G3) random bytes; x reply capacity (0..160 dense, page sizes, room-17..room+64, 1MiB+4KiB) x transport (SEQPACKET /dev/fuse stand-in | random virtio chains) x scripted filesystem results (ok/err/partial-then-error); non-trivial = request of >= 40 bytes that names a defined opcode or reached a handler or was answered; distinct = distinct serialized case",
            assumptions: vec![
                "panics are caught with catch_unwind in-process; memory safety outside the buffers is observed through canary frames (quick) and AddressSanitizer in the fuzz target (thorough)".into(),
                "one SEQPACKET datagram == one write()/writev() call on the /dev/fuse descriptor".into(),
                "the scripted filesystem is sound (never returns more than asked) except the labelled partial-then-error read".into(),
            ],
            ..Meta::default()
        }
    }
    fn worker(&self, w: &WorkerCtx) -> WorkerResult {
        let cases = w.share(w.tier.pick(60_000, 2_000_000));
        drive(w, "C01", "msg", cases, strategy(w.tier), run)
    }
    fn replay(&self, _kind: &str, case: &Value) -> Vec<Fail> {
        let c: Case = serde_json::from_value(case.clone()).expect("case");
        run(&c).fails
    }
}
