//! C02 — each request is decoded into exactly the operation and arguments sent.
use crate::engine::*;
use crate::mockfs::{MockFs, MockRes};
use crate::reqgen::{self, Req};
use crate::transport::{self, ChainSpec};
use fuse_backend_rs::api::server::Server;
use proptest::prelude::*;
use serde::{Deserialize, Serialize};
use serde_json::Value;
use std::sync::Arc;

#[derive(Clone, Debug, Serialize, Deserialize)]
pub struct Case {
    pub req: Req,
    pub virtio: Option<ChainSpec>,
    pub write_via_file: bool,
}

pub struct C02;

pub fn chain_strategy() -> BoxedStrategy<ChainSpec> {
    let lens = prop_oneof![
        Just(0u32), Just(1), Just(2), Just(3), Just(7), Just(8), Just(9), Just(15), Just(16), Just(17), Just(24), Just(40), Just(41),
        Just(127), Just(128), Just(4095), Just(4096), Just(4097), 0u32..9000
    ];
    let seg = (lens, prop_oneof![3 => Just(0u16), 1 => 0u16..300], 0u8..3).prop_map(|(len, gap, region)| transport::Seg { len, gap, region });
    (
        proptest::collection::vec(seg.clone(), 1..8),
        proptest::collection::vec(seg, 1..8),
        any::<bool>(),
        prop_oneof![2 => Just(0u16), 1 => 0u16..4096],
    )
        .prop_map(|(readable, writable, indirect, page_off)| ChainSpec { readable, writable, indirect, page_off })
        .boxed()
}

pub fn strategy(tier: Tier) -> BoxedStrategy<Case> {
    let (mp, mn) = tier.pick((65536usize, 4000usize), (1 << 20, 1 << 20));
    (reqgen::any_req(mp, mn), prop_oneof![1 => Just(None), 1 => chain_strategy().prop_map(Some)], any::<bool>())
        .prop_map(|(req, virtio, write_via_file)| Case { req, virtio, write_via_file })
        .boxed()
}

fn first_diff(exp: &Value, got: &Value) -> String {
    if exp["m"] != got["m"] {
        return format!("method:{}", got["m"].as_str().unwrap_or("?"));
    }
    if exp["ctx"] != got["ctx"] {
        return "arg:ctx".into();
    }
    if let (Some(e), Some(g)) = (exp["a"].as_object(), got["a"].as_object()) {
        for (k, v) in e {
            if g.get(k) != Some(v) {
                return format!("arg:{}", k);
            }
        }
        for k in g.keys() {
            if !e.contains_key(k) {
                return format!("arg:{}", k);
            }
        }
    }
    "arg:?".into()
}

pub fn run(c: &Case) -> Outcome {
    let mut out = Outcome::default();
    let mut fs = MockFs::new(MockRes::Default);
    fs.write_via_file = c.write_via_file;
    fs.log_remap = true;
    let fs = Arc::new(fs);
    let srv = Server::new(fs.clone());
    let bytes = c.req.encode();
    let op = c.req.op.as_str();
    let room = 16 + c.req.reply_room() + 64;
    let vu = true;
    let d = match &c.virtio {
        None => transport::serve_fusedev(&srv, &bytes, room, vu),
        Some(spec) => {
            let mut s = spec.clone();
            s.fit_writable(room.max(s.wtotal()));
            transport::serve_virtio(&srv, &bytes, &s, vu).0
        }
    };
    out.class(format!("op:{}", op));
    out.class(if c.virtio.is_some() { "transport:virtio" } else { "transport:fusedev" });
    out.nontrivial = true;
    for f in d.fails {
        out.fails.push(f);
    }
    let calls = fs.calls();
    let remaps: Vec<&Value> = calls.iter().filter(|v| v["m"] == "id_remap").collect();
    let ops: Vec<&Value> = calls.iter().filter(|v| v["m"] != "id_remap").collect();
    if remaps.len() != 1 {
        out.fail(format!("decode/{}/id-remap-count", op), format!("{} id translation calls", remaps.len()));
    }
    let exp = c.req.expected_call();
    // flag-polarity classes
    match op {
        "GETATTR" => out.class(format!("getattr_fh:{}", c.req.f("getattr_flags") & 1)),
        "READ" => out.class(format!("read_lockowner:{}", (c.req.f("read_flags") >> 1) & 1)),
        "WRITE" => out.class(format!("write_lockowner:{}", (c.req.f("write_flags") >> 1) & 1)),
        "SETATTR" => out.class(format!("fattr_fh:{}", (c.req.f("valid") >> 6) & 1)),
        "RELEASE" => out.class(format!("release_flags:{}", c.req.f("release_flags") & 3)),
        "FSYNC" => out.class(format!("datasync:{}", c.req.f("fsync_flags") & 1)),
        _ => {}
    }
    match (op, exp) {
        ("INIT", _) => {
            if ops.len() != 1 || ops[0]["m"] != "init" {
                out.fail("decode/INIT/calls", format!("expected exactly one init call, got {:?}", ops));
            }
        }
        (_, None) => {
            if !ops.is_empty() {
                out.fail(format!("decode/{}/unexpected-call", op), format!("no operation expected, got {}", ops[0]));
            }
        }
        (_, Some(e)) => {
            if ops.len() != 1 {
                out.fail(
                    format!("decode/{}/call-count:{}", op, ops.len()),
                    format!("expected exactly one call {}, got {:?} (ret {:?})", e, ops, d.ret),
                );
            } else if *ops[0] != e {
                out.fail(format!("decode/{}/{}", op, first_diff(&e, ops[0])), format!("expected {} got {}", e, ops[0]));
            }
        }
    }
    out
}

impl Prop for C02 {
    fn id(&self) -> &'static str {
        "C02"
    }
    fn meta(&self) -> Meta {
        Meta {
            rule: "well-formed requests for all 47 opcodes generated from the kernel layout table (every body/header field from {0,1,max,single bits,random}, names 0..4000 bytes (thorough: up to 1 MiB), payloads up to 64 KiB (thorough 1 MiB), lists up to 300), over /dev/fuse stand-in or random virtio chains; every case is non-trivial; distinct = distinct serialized case",
            assumptions: vec![
                "oracle table (opcode,fields)->(method,args) written from the kernel protocol definition in harness/src/reqgen.rs".into(),
                "SETXATTR uses the 8-byte compat body (FUSE_SETXATTR_EXT is never negotiated by the crate)".into(),
                "RENAME2 flags restricted to the three defined bits".into(),
            ],
            ..Meta::default()
        }
    }
    fn worker(&self, w: &WorkerCtx) -> WorkerResult {
        let cases = w.share(w.tier.pick(60_000, 1_500_000));
        drive(w, "C02", "req", cases, strategy(w.tier), run)
    }
    fn replay(&self, _kind: &str, case: &Value) -> Vec<Fail> {
        let c: Case = serde_json::from_value(case.clone()).expect("case");
        run(&c).fails
    }
}
