//! C07 (routing) and C14 (id mapping): one interpreter over mount/umount/request
//! histories against a Vfs with scripted tree backends. Failures are tagged
//! "route/..." (C07) or "idmap/..." (C14); each property keeps its own.
use crate::codec::{self, c};
use crate::engine::*;
use crate::vfsdrv::*;
use fuse_backend_rs::api::{Vfs, VfsOptions};
use proptest::prelude::*;
use serde::{Deserialize, Serialize};
use serde_json::Value;
use std::collections::{BTreeMap, BTreeSet};
use std::sync::{Arc, Mutex};

pub const PATHS: &[&str] = &["/", "/x", "/y", "/x/y", "/x/z", "/y/x/z", "/z"];
pub const NAMES: &[&str] = &["x", "y", "z", "s", "a", "b", "c", "..", ".", "nope"];

pub type Map3 = (u32, u32, u32);

#[derive(Clone, Debug, Serialize, Deserialize, PartialEq)]
pub enum RK {
    Getattr,
    Setattr { uid: Option<u32>, gid: Option<u32> },
    Lookup(u8),
    Create(u8),
    Mkdir(u8),
    Mknod(u8),
    Symlink(u8),
    Unlink(u8),
    Rmdir(u8),
    Open,
    Opendir,
    Read,
    Write,
    Statfs,
    Getxattr,
    Setxattr,
    Readlink,
    Access,
    Readdir,
    Readdirplus,
    Forget,
    Release,
    Flush,
    Fsync,
    Fallocate,
    /// operations the VFS does not forward
    Lseek,
    Getlk,
    Bmap,
    Poll,
    Ioctl,
    /// lookup+getattr+readdir+readdirplus agreement for every child of this directory
    Consistency,
}

#[derive(Clone, Debug, Serialize, Deserialize, PartialEq)]
pub enum Op {
    Mount { b: u8, path: u8, map: Option<Map3> },
    Umount { path: u8 },
    Burst(u16),
    Walk(Vec<u8>),
    Req { sel: u16, kind: RK, uid: u32, gid: u32 },
    Rename { src: u16, dst: u16, n1: u8, n2: u8 },
    Link { src: u16, dst: u16, n: u8 },
}

#[derive(Clone, Debug, Serialize, Deserialize, PartialEq)]
pub struct Case {
    pub no_open: bool,
    pub no_opendir: bool,
    pub global: Option<Map3>,
    pub backends: Vec<TreeSpec>,
    pub ops: Vec<Op>,
}

#[derive(Clone, Debug, PartialEq)]
pub enum Owner {
    Pseudo(String),
    Backend { serial: usize, bino: u64 },
}

#[derive(Clone, Debug)]
pub struct KnownIno {
    pub nodeid: u64,
    pub owner: Owner,
}

pub struct MountRec {
    pub serial: usize,
    pub spec: usize,
    pub slot: u8,
    pub map: Option<Map3>,
    pub path: String,
    pub fs: TreeFs,
    pub live: bool,
    /// owner of the backend root when it was mounted
    pub root_owner: (u32, u32),
}

pub fn map_id(v: u32, from: u32, to: u32, n: u32) -> u32 {
    if v >= from && v - from < n {
        v - from + to
    } else {
        v
    }
}

pub struct World {
    pub w: VfsWorld,
    pub mounts: Vec<MountRec>,
    /// path -> serial of live mount
    pub at: BTreeMap<String, usize>,
    pub pseudo: BTreeSet<String>,
    pub pseudo_ids: BTreeMap<String, u64>,
    pub known: Vec<KnownIno>,
    pub slots: Vec<Option<usize>>,
    pub global: Option<Map3>,
    pub no_open: bool,
    pub no_opendir: bool,
    pub wrapped: bool,
    pub stale_probe: bool,
    pub cross_op: bool,
    pub after_umount_req: bool,
    pub had_umount: bool,
    pub mapped_req: bool,
    pub slot_reuse: bool,
    pub root_mount_req: bool,
    pub overlap: bool,
}

fn parent_of(p: &str) -> String {
    match p.rfind('/') {
        Some(0) | None => String::new(),
        Some(i) => p[..i].to_string(),
    }
}

impl World {
    pub fn new(cs: &Case) -> World {
        let mut opts = VfsOptions::default();
        opts.no_open = cs.no_open;
        opts.no_opendir = cs.no_opendir;
        if let Some(m) = cs.global {
            opts.id_mapping = m;
        }
        let w = VfsWorld::new(opts);
        let mut pseudo = BTreeSet::new();
        pseudo.insert(String::new());
        let mut pseudo_ids = BTreeMap::new();
        pseudo_ids.insert(String::new(), 1u64);
        World {
            w,
            mounts: vec![],
            at: BTreeMap::new(),
            pseudo,
            pseudo_ids,
            known: vec![KnownIno { nodeid: 1, owner: Owner::Pseudo(String::new()) }],
            slots: vec![None; 256],
            global: cs.global,
            no_open: cs.no_open,
            no_opendir: cs.no_opendir,
            wrapped: false,
            stale_probe: false,
            cross_op: false,
            after_umount_req: false,
            had_umount: false,
            mapped_req: false,
            slot_reuse: false,
            root_mount_req: false,
            overlap: false,
        }
    }

    pub fn norm(path: &str) -> String {
        if path == "/" {
            String::new()
        } else {
            path.to_string()
        }
    }

    pub fn do_mount(&mut self, out: &mut Outcome, spec_idx: usize, spec: &TreeSpec, path: &str, map: Option<Map3>) {
        let serial = self.mounts.len();
        let fs = TreeFs::new(serial, spec, self.w.log.clone());
        let r = self.w.vfs.mount_with_id_mapping(Box::new(fs.clone()), path, map);
        self.w.take_log();
        let p = Self::norm(path);
        match r {
            Ok(idx) => {
                if idx == 0 {
                    out.fail("route/mount-index-zero", "mount() returned the pseudo fs index");
                }
                if let Some(prev) = self.slots[idx as usize] {
                    if self.mounts[prev].live {
                        out.fail("route/mount-index-in-use", format!("mount() returned index {} which belongs to a live mount", idx));
                    }
                }
                if self.mounts.iter().any(|m| m.slot == idx) {
                    self.slot_reuse = true;
                }
                if !self.mounts.is_empty() && idx < self.mounts.last().unwrap().slot {
                    self.wrapped = true;
                }
                // over-mount kills the previous occupant of the path
                if let Some(old) = self.at.get(&p).copied() {
                    self.mounts[old].live = false;
                    let s = self.mounts[old].slot as usize;
                    if self.slots[s] == Some(old) {
                        self.slots[s] = None;
                    }
                    self.had_umount = true;
                }
                self.slots[idx as usize] = Some(serial);
                self.at.insert(p.clone(), serial);
                // pseudo directories along the path
                let mut cur = p.clone();
                while !cur.is_empty() {
                    self.pseudo.insert(cur.clone());
                    cur = parent_of(&cur);
                }
                self.mounts.push(MountRec { serial, spec: spec_idx, slot: idx, map, path: p, fs, live: true, root_owner: (spec.root_uid, spec.root_gid) });
            }
            Err(e) => {
                out.fail("route/mount-failed", format!("mount at {} failed: {:?}", path, e));
                self.mounts.push(MountRec { serial, spec: spec_idx, slot: 0, map, path: p, fs, live: false, root_owner: (spec.root_uid, spec.root_gid) });
            }
        }
    }

    pub fn do_umount(&mut self, out: &mut Outcome, path: &str) {
        let p = Self::norm(path);
        let r = self.w.vfs.umount(path);
        self.w.take_log();
        match (self.at.get(&p).copied(), r) {
            (Some(serial), Ok(_)) => {
                self.mounts[serial].live = false;
                let s = self.mounts[serial].slot as usize;
                if self.slots[s] == Some(serial) {
                    self.slots[s] = None;
                }
                self.at.remove(&p);
                self.had_umount = true;
            }
            (Some(_), Err(e)) => out.fail("route/umount-failed", format!("umount {} failed: {:?}", path, e)),
            (None, Ok(_)) => out.fail("route/umount-phantom", format!("umount of {} (no mount there) succeeded", path)),
            (None, Err(_)) => {}
        }
    }

    fn eff_map(&self, serial: usize) -> Option<Map3> {
        self.mounts[serial].map.or(self.global)
    }

    fn learn(&mut self, out: &mut Outcome, nodeid: u64, owner: Owner) {
        if nodeid == 0 {
            return;
        }
        // bijection among live owners
        for k in &self.known {
            let live = |o: &Owner| match o {
                Owner::Pseudo(_) => true,
                Owner::Backend { serial, .. } => self.mounts[*serial].live,
            };
            if !live(&k.owner) || !live(&owner) {
                continue;
            }
            if k.nodeid == nodeid && k.owner != owner {
                out.fail("route/inode-collision", format!("inode number {:#x} denotes both {:?} and {:?}", nodeid, k.owner, owner));
            }
            if k.owner == owner && k.nodeid != nodeid {
                out.fail("route/inode-unstable", format!("{:?} was given inode numbers {:#x} and {:#x}", owner, k.nodeid, nodeid));
            }
        }
        if !self.known.iter().any(|k| k.nodeid == nodeid && k.owner == owner) {
            self.known.push(KnownIno { nodeid, owner });
        }
    }

    /// Which backend (serial, backend inode) must serve a request on this known inode? None = pseudo fs / nobody.
    fn target(&self, k: &KnownIno) -> Option<(usize, u64)> {
        match &k.owner {
            Owner::Backend { serial, bino } => Some((*serial, *bino)),
            Owner::Pseudo(p) if p.is_empty() => self.at.get("").map(|s| (*s, self.mounts[*s].fs.0.root)),
            _ => None,
        }
    }

    /// C07 core: the log of one request must be exactly one call on `want`.
    fn check_route(&self, out: &mut Outcome, what: &str, log: &[(usize, Value)], want: Option<(usize, u64)>, second: Option<u64>) {
        match want {
            None => {
                if !log.is_empty() {
                    out.fail(format!("route/{}/unexpected-backend-call", what), format!("no backend should be reached, log: {:?}", log));
                }
            }
            Some((serial, bino)) => {
                if log.len() != 1 {
                    out.fail(format!("route/{}/call-count:{}", what, log.len()), format!("expected one call on mount #{} inode {}, log: {:?}", serial, bino, log));
                    return;
                }
                let (tag, v) = &log[0];
                if *tag != serial {
                    out.fail(format!("route/{}/wrong-backend", what), format!("request for mount #{} was delivered to mount #{}: {}", serial, tag, v));
                } else if v["ino"].as_u64() != Some(bino) {
                    out.fail(format!("route/{}/wrong-inode", what), format!("backend received inode {} instead of its own {}: {}", v["ino"], bino, v));
                }
                if let Some(s) = second {
                    let got = v["a"]["newdir"].as_u64().or(v["a"]["oldino"].as_u64());
                    if got != Some(s) {
                        out.fail(format!("route/{}/wrong-second-inode", what), format!("second inode argument {:?} expected {}", got, s));
                    }
                }
            }
        }
    }

    /// C14: the caller ids the backend saw are ext->int of the header ids under the serving mount's mapping
    fn check_ctx(&mut self, out: &mut Outcome, what: &str, log: &[(usize, Value)], serial: usize, uid: u32, gid: u32) {
        if log.len() != 1 {
            return;
        }
        let m = self.eff_map(serial);
        let (eu, eg) = match m {
            Some((int, ext, n)) => (map_id(uid, ext, int, n), map_id(gid, ext, int, n)),
            None => (uid, gid),
        };
        if let Some((int, ext, n)) = m {
            if (uid >= ext && uid - ext < n) || (gid >= ext && gid - ext < n) {
                self.mapped_req = true;
            }
            let _ = int;
        }
        let v = &log[0].1;
        let gu = v["ctx"][0].as_u64().unwrap_or(u64::MAX) as u32;
        let gg = v["ctx"][1].as_u64().unwrap_or(u64::MAX) as u32;
        if gu != eu || gg != eg {
            let own = if self.mounts[serial].map.is_some() { "per-mount" } else { "global" };
            out.fail(
                format!("idmap/{}/caller-ids:{}-mapping", what, if m.is_none() { "no" } else { own }),
                format!("caller ({},{}) reached mount #{} as ({},{}), expected ({},{}) under its {} mapping {:?}", uid, gid, serial, gu, gg, eu, eg, own, m),
            );
        }
    }

    /// C14: owner ids in a reply are int->ext of what the backend returned, applied once
    fn check_owner(&self, out: &mut Outcome, what: &str, serial: usize, back: (u32, u32), got: (u32, u32)) {
        let m = self.eff_map(serial);
        let exp = match m {
            Some((int, ext, n)) => (map_id(back.0, int, ext, n), map_id(back.1, int, ext, n)),
            None => back,
        };
        if got != exp {
            out.fail(
                format!("idmap/{}/owner-ids", what),
                format!("backend owner {:?} of mount #{} reached the client as {:?}, expected {:?} under mapping {:?}", back, serial, got, exp, m),
            );
        }
    }
}

fn name_of(i: u8) -> &'static str {
    NAMES[i as usize % NAMES.len()]
}

pub fn run(cs: &Case) -> Outcome {
    let mut out = Outcome::default();
    let mut wd = World::new(cs);
    if let Some((i, e, n)) = cs.global {
        if i < e.saturating_add(n) && e < i.saturating_add(n) {
            wd.overlap = true;
        }
    }
    let all_flags = u64::MAX & !(1u64 << 63);
    let r = wd.w.init(all_flags);
    if r.error != 0 {
        out.fail("route/init", format!("INIT failed with {}", r.error));
        return out;
    }
    for (opi, op) in cs.ops.iter().enumerate() {
        if !out.fails.is_empty() {
            break;
        }
        match op {
            Op::Mount { b, path, map } => {
                let bi = *b as usize % cs.backends.len();
                if let Some((i, e, n)) = map {
                    if *i < e.saturating_add(*n) && *e < i.saturating_add(*n) {
                        wd.overlap = true;
                    }
                }
                wd.do_mount(&mut out, bi, &cs.backends[bi], PATHS[*path as usize % PATHS.len()], *map);
            }
            Op::Umount { path } => wd.do_umount(&mut out, PATHS[*path as usize % PATHS.len()]),
            Op::Burst(n) => {
                let spec = TreeSpec { root_ino: 5, root_uid: 0, root_gid: 0, children: vec![] };
                for _ in 0..*n {
                    wd.do_mount(&mut out, usize::MAX, &spec, "/s", None);
                    wd.do_umount(&mut out, "/s");
                    if !out.fails.is_empty() {
                        break;
                    }
                }
            }
            Op::Walk(comps) => {
                let mut cur = wd.known[0].clone();
                for ci in comps {
                    let name = name_of(*ci);
                    match lookup_step(&mut wd, &mut out, &cur, name, 0, 0) {
                        Some(next) => cur = next,
                        None => break,
                    }
                    if !out.fails.is_empty() {
                        break;
                    }
                }
            }
            Op::Req { sel, kind, uid, gid } => {
                let k = wd.known[pick_idx(*sel, wd.known.len())].clone();
                do_req(&mut wd, &mut out, &k, kind, *uid, *gid, opi);
            }
            Op::Rename { src, dst, n1, n2 } => {
                let a = wd.known[pick_idx(*src, wd.known.len())].clone();
                let b = wd.known[pick_idx(*dst, wd.known.len())].clone();
                two_inode_op(&mut wd, &mut out, &a, &b, true, name_of(*n1), name_of(*n2));
            }
            Op::Link { src, dst, n } => {
                let a = wd.known[pick_idx(*src, wd.known.len())].clone();
                let b = wd.known[pick_idx(*dst, wd.known.len())].clone();
                two_inode_op(&mut wd, &mut out, &a, &b, false, name_of(*n), name_of(*n));
            }
        }
    }
    let live = wd.mounts.iter().filter(|m| m.live).count();
    if wd.wrapped {
        out.class("vfs:index-wrapped");
    }
    if wd.at.contains_key("") {
        out.class("vfs:root-mount");
    }
    if wd.stale_probe {
        out.class("vfs:stale-probe");
    }
    if wd.cross_op {
        out.class("vfs:cross-mount-op");
    }
    if wd.slot_reuse {
        out.class("vfs:slot-reuse");
    }
    if wd.mapped_req {
        out.class("idmap:id-inside-range");
    }
    if wd.overlap {
        out.class("idmap:overlapping-ranges");
    }
    if wd.root_mount_req {
        out.class("idmap:request-on-root-mount");
    }
    let route_nt = (live >= 2 || wd.mounts.len() >= 2) && wd.after_umount_req;
    let idmap_nt = wd.mapped_req;
    out.class(if route_nt { "route:nontrivial" } else { "route:trivial" });
    out.class(if idmap_nt { "idmap:nontrivial" } else { "idmap:trivial" });
    out.nontrivial = route_nt || idmap_nt;
    out
}

/// LOOKUP of `name` in `cur`; returns the known inode reached (if any).
fn lookup_step(wd: &mut World, out: &mut Outcome, cur: &KnownIno, name: &str, uid: u32, gid: u32) -> Option<KnownIno> {
    let req = mkreq("LOOKUP", cur.nodeid, uid, gid, &[], &[name.as_bytes()], &[]);
    let (rep, log) = wd.w.call(&req);
    if wd.had_umount {
        wd.after_umount_req = true;
    }
    if rep.nreplies != 1 {
        out.fail("route/lookup/no-reply", format!("{} replies", rep.nreplies));
        return None;
    }
    let tgt = wd.target(cur);
    match (&cur.owner, tgt) {
        (Owner::Backend { serial, .. }, _) if !wd.mounts[*serial].live => {
            stale_check(wd, out, "lookup", cur, &rep, &log);
            None
        }
        (_, Some((serial, bino))) => {
            // served by a backend
            wd.check_route(out, "lookup", &log, Some((serial, bino)), None);
            if cur.nodeid == 1 {
                wd.root_mount_req = true;
            }
            wd.check_ctx(out, "lookup", &log, serial, uid, gid);
            let ret = log.first().map(|l| l.1["a"]["ret"].clone()).unwrap_or(Value::Null);
            match (rep.entry(0), ret.is_null()) {
                (Some(e), false) => {
                    let bino2 = ret["ino"].as_u64().unwrap();
                    if e.ino != e.nodeid {
                        out.fail("route/lookup/attr-ino", format!("entry nodeid {:#x} but attr.ino {:#x}", e.nodeid, e.ino));
                    }
                    wd.check_owner(out, "lookup", serial, (ret["uid"].as_u64().unwrap() as u32, ret["gid"].as_u64().unwrap() as u32), (e.uid, e.gid));
                    let owner = Owner::Backend { serial, bino: bino2 };
                    wd.learn(out, e.nodeid, owner.clone());
                    Some(KnownIno { nodeid: e.nodeid, owner })
                }
                (None, true) => {
                    if rep.error == 0 {
                        out.fail("route/lookup/ok-without-entry", "backend failed but the reply is Ok");
                    }
                    None
                }
                (Some(_), true) => {
                    out.fail("route/lookup/phantom-entry", "backend returned an error but the client got an entry");
                    None
                }
                (None, false) => {
                    out.fail("route/lookup/lost-entry", format!("backend returned an entry but the client got error {}", rep.error));
                    None
                }
            }
        }
        (Owner::Pseudo(p), None) => {
            // pseudo directory
            if !log.is_empty() {
                out.fail("route/lookup/pseudo-reached-backend", format!("pseudo lookup reached a backend: {:?}", log));
            }
            let child = match name {
                "." => p.clone(),
                ".." => parent_of(p),
                n => format!("{}/{}", p, n),
            };
            if !wd.pseudo.contains(&child) {
                if rep.error == 0 {
                    out.fail("route/lookup/pseudo-phantom", format!("lookup of {:?} in pseudo dir {:?} succeeded", name, p));
                }
                return None;
            }
            let Some(e) = rep.entry(0) else {
                out.fail("route/lookup/pseudo-missing", format!("lookup of {:?} in pseudo dir {:?} failed with {}", name, p, rep.error));
                return None;
            };
            if let Some(serial) = wd.at.get(&child).copied() {
                // crossing into the mounted file system's root
                let root = wd.mounts[serial].fs.0.root;
                let owner = Owner::Backend { serial, bino: root };
                if e.ino != e.nodeid {
                    out.fail("route/lookup/attr-ino", format!("mount root nodeid {:#x} but attr.ino {:#x}", e.nodeid, e.ino));
                }
                // the VFS answers with the root entry it obtained when the file system was mounted
                let (ru, rg) = wd.mounts[serial].root_owner;
                wd.check_owner(out, "mount-root-lookup", serial, (ru, rg), (e.uid, e.gid));
                if e.mode & libc::S_IFMT != libc::S_IFDIR {
                    out.fail("route/lookup/cross-not-root", "crossing entry is not the backend's root directory");
                }
                wd.learn(out, e.nodeid, owner.clone());
                // the number must route to that backend's root
                Some(KnownIno { nodeid: e.nodeid, owner })
            } else {
                let owner = Owner::Pseudo(child.clone());
                if let Some(prev) = wd.pseudo_ids.get(&child) {
                    if *prev != e.nodeid {
                        out.fail("route/lookup/pseudo-unstable", format!("pseudo dir {:?} was {:#x}, now {:#x}", child, prev, e.nodeid));
                    }
                }
                wd.pseudo_ids.insert(child, e.nodeid);
                wd.learn(out, e.nodeid, owner.clone());
                Some(KnownIno { nodeid: e.nodeid, owner })
            }
        }
        _ => None,
    }
}

/// Requests naming an inode whose mount is gone: vacant slot => error, no backend reached.
fn stale_check(wd: &mut World, out: &mut Outcome, what: &str, k: &KnownIno, rep: &Rep, log: &[(usize, Value)]) {
    if let Owner::Backend { serial, .. } = &k.owner {
        let slot = wd.mounts[*serial].slot as usize;
        if wd.slots[slot].is_none() {
            wd.stale_probe = true;
            if !log.is_empty() {
                out.fail(format!("route/{}/stale-reached-backend", what), format!("inode {:#x} of a vacant mount slot reached a backend: {:?}", k.nodeid, log));
            }
            if rep.nreplies == 1 && rep.error == 0 {
                out.fail(format!("route/{}/stale-ok", what), format!("request on inode {:#x} of a vacant mount slot succeeded", k.nodeid));
            }
        }
        // slot re-used by another mount: aliasing of the 8-bit index is inherent, nothing is claimed
    }
}

fn do_req(wd: &mut World, out: &mut Outcome, k: &KnownIno, kind: &RK, uid: u32, gid: u32, opi: usize) {
    let nid = k.nodeid;
    let newname = format!("n{}", opi);
    let (req, what, forwarded, reply_expected): (crate::reqgen::Req, &str, bool, bool) = match kind {
        RK::Getattr => (mkreq("GETATTR", nid, uid, gid, &[], &[], &[]), "getattr", true, true),
        RK::Setattr { uid: su, gid: sg } => {
            let mut valid = 0u64;
            if su.is_some() {
                valid |= c("FATTR_UID");
            }
            if sg.is_some() {
                valid |= c("FATTR_GID");
            }
            (
                mkreq("SETATTR", nid, uid, gid, &[("valid", valid), ("uid", su.unwrap_or(0) as u64), ("gid", sg.unwrap_or(0) as u64)], &[], &[]),
                "setattr",
                true,
                true,
            )
        }
        RK::Lookup(n) => {
            lookup_step(wd, out, k, name_of(*n), uid, gid);
            return;
        }
        RK::Create(_) => (mkreq("CREATE", nid, uid, gid, &[("flags", 0x42), ("mode", 0o644)], &[newname.as_bytes()], &[]), "create", true, true),
        RK::Mkdir(_) => (mkreq("MKDIR", nid, uid, gid, &[("mode", 0o755)], &[newname.as_bytes()], &[]), "mkdir", true, true),
        RK::Mknod(_) => (mkreq("MKNOD", nid, uid, gid, &[("mode", 0o100644)], &[newname.as_bytes()], &[]), "mknod", true, true),
        RK::Symlink(_) => (mkreq("SYMLINK", nid, uid, gid, &[], &[newname.as_bytes(), b"tgt"], &[]), "symlink", true, true),
        RK::Unlink(n) => (mkreq("UNLINK", nid, uid, gid, &[], &[name_of(*n).as_bytes()], &[]), "unlink", true, true),
        RK::Rmdir(n) => (mkreq("RMDIR", nid, uid, gid, &[], &[name_of(*n).as_bytes()], &[]), "rmdir", true, true),
        RK::Open => (mkreq("OPEN", nid, uid, gid, &[("flags", 2)], &[], &[]), "open", !wd.no_open, true),
        RK::Opendir => (mkreq("OPENDIR", nid, uid, gid, &[("flags", 0)], &[], &[]), "opendir", !wd.no_opendir, true),
        RK::Read => (mkreq("READ", nid, uid, gid, &[("fh", 5), ("size", 100)], &[], &[]), "read", true, true),
        RK::Write => (mkreq("WRITE", nid, uid, gid, &[("fh", 5), ("size", 3)], &[], b"abc"), "write", true, true),
        RK::Statfs => (mkreq("STATFS", nid, uid, gid, &[], &[], &[]), "statfs", true, true),
        RK::Getxattr => (mkreq("GETXATTR", nid, uid, gid, &[("size", 0)], &[b"user.k"], &[]), "getxattr", true, true),
        RK::Setxattr => (mkreq("SETXATTR", nid, uid, gid, &[("size", 1)], &[b"user.k"], b"v"), "setxattr", true, true),
        RK::Readlink => (mkreq("READLINK", nid, uid, gid, &[], &[], &[]), "readlink", true, true),
        RK::Access => (mkreq("ACCESS", nid, uid, gid, &[("mask", 4)], &[], &[]), "access", true, true),
        RK::Readdir => (mkreq("READDIR", nid, uid, gid, &[("fh", 0), ("size", 4096)], &[], &[]), "readdir", true, true),
        RK::Readdirplus => (mkreq("READDIRPLUS", nid, uid, gid, &[("fh", 0), ("size", 8192)], &[], &[]), "readdirplus", true, true),
        RK::Forget => (mkreq("FORGET", nid, uid, gid, &[("nlookup", 1)], &[], &[]), "forget", true, false),
        RK::Release => (mkreq("RELEASE", nid, uid, gid, &[("fh", 5)], &[], &[]), "release", true, true),
        RK::Flush => (mkreq("FLUSH", nid, uid, gid, &[("fh", 5)], &[], &[]), "flush", true, true),
        RK::Fsync => (mkreq("FSYNC", nid, uid, gid, &[("fh", 5)], &[], &[]), "fsync", true, true),
        RK::Fallocate => (mkreq("FALLOCATE", nid, uid, gid, &[("fh", 5), ("length", 10)], &[], &[]), "fallocate", true, true),
        RK::Lseek => (mkreq("LSEEK", nid, uid, gid, &[("fh", 5)], &[], &[]), "lseek", false, true),
        RK::Getlk => (mkreq("GETLK", nid, uid, gid, &[("fh", 5)], &[], &[]), "getlk", false, true),
        RK::Bmap => (mkreq("BMAP", nid, uid, gid, &[("blocksize", 512)], &[], &[]), "bmap", false, true),
        RK::Poll => (mkreq("POLL", nid, uid, gid, &[("fh", 5)], &[], &[]), "poll", false, true),
        RK::Ioctl => (mkreq("IOCTL", nid, uid, gid, &[("fh", 5)], &[], &[]), "ioctl", false, true),
        RK::Consistency => {
            consistency(wd, out, k);
            return;
        }
    };
    let (rep, log) = wd.w.call(&req);
    if wd.had_umount {
        wd.after_umount_req = true;
    }
    if reply_expected && rep.nreplies != 1 {
        out.fail(format!("route/{}/reply-count", what), format!("{} replies", rep.nreplies));
        return;
    }
    if let Owner::Backend { serial, .. } = &k.owner {
        if !wd.mounts[*serial].live {
            stale_check(wd, out, what, k, &rep, &log);
            return;
        }
    }
    let tgt = wd.target(k);
    // "." and ".." are refused by the VFS for every name-removing operation before any backend is touched
    if let RK::Unlink(n) | RK::Rmdir(n) = kind {
        let nm = name_of(*n);
        if nm == "." || nm == ".." {
            wd.check_route(out, what, &log, None, None);
            if rep.error == 0 {
                out.fail(format!("route/{}/dot-name-accepted", what), "\".\"/\"..\" accepted");
            }
            return;
        }
    }
    if !forwarded {
        wd.check_route(out, what, &log, None, None);
        if rep.error == 0 && reply_expected {
            out.fail(format!("route/{}/unforwarded-ok", what), "operation the VFS does not forward succeeded");
        }
        return;
    }
    match tgt {
        None => {
            // pseudo fs: never reaches a backend
            wd.check_route(out, what, &log, None, None);
        }
        Some((serial, bino)) => {
            wd.check_route(out, what, &log, Some((serial, bino)), None);
            if nid == 1 {
                wd.root_mount_req = true;
            }
            wd.check_ctx(out, what, &log, serial, uid, gid);
            let ret = log.first().map(|l| l.1["a"]["ret"].clone()).unwrap_or(Value::Null);
            match kind {
                RK::Getattr | RK::Setattr { .. } => {
                    if let RK::Setattr { uid: su, gid: sg } = kind {
                        if let (Some(l), Some((int, ext, n))) = (log.first(), wd.eff_map(serial)) {
                            if let Some(u) = su {
                                let want = map_id(*u, ext, int, n);
                                if l.1["a"]["uid"].as_u64() != Some(want as u64) {
                                    out.fail("idmap/setattr/owner-to-set", format!("uid {} to set reached the backend as {}, expected {}", u, l.1["a"]["uid"], want));
                                }
                            }
                            if let Some(g) = sg {
                                let want = map_id(*g, ext, int, n);
                                if l.1["a"]["gid"].as_u64() != Some(want as u64) {
                                    out.fail("idmap/setattr/owner-to-set", format!("gid {} to set reached the backend as {}, expected {}", g, l.1["a"]["gid"], want));
                                }
                            }
                        } else if let Some(l) = log.first() {
                            if let Some(u) = su {
                                if l.1["a"]["uid"].as_u64() != Some(*u as u64) {
                                    out.fail("idmap/setattr/owner-to-set-unmapped", format!("uid {} changed to {} without a mapping", u, l.1["a"]["uid"]));
                                }
                            }
                        }
                    }
                    if let (Some(a), false) = (rep.attr(), ret.is_null()) {
                        if a.ino != nid && nid != 1 {
                            out.fail(format!("route/{}/attr-ino", what), format!("attr.ino {:#x} for inode {:#x}", a.ino, nid));
                        }
                        wd.check_owner(out, what, serial, (ret["uid"].as_u64().unwrap() as u32, ret["gid"].as_u64().unwrap() as u32), (a.uid, a.gid));
                    }
                }
                RK::Create(_) | RK::Mkdir(_) | RK::Mknod(_) | RK::Symlink(_) => {
                    if let (Some(e), false) = (rep.entry(0), ret.is_null()) {
                        if e.ino != e.nodeid {
                            out.fail(format!("route/{}/attr-ino", what), "nodeid != attr.ino");
                        }
                        wd.check_owner(out, what, serial, (ret["uid"].as_u64().unwrap() as u32, ret["gid"].as_u64().unwrap() as u32), (e.uid, e.gid));
                        let owner = Owner::Backend { serial, bino: ret["ino"].as_u64().unwrap() };
                        wd.learn(out, e.nodeid, owner);
                    } else if rep.error == 0 {
                        out.fail(format!("route/{}/lost-entry", what), "Ok reply without entry");
                    }
                }
                RK::Readdirplus => {
                    // owner ids of every plus entry
                    let nodes = wd.mounts[serial].fs.0.nodes.lock().unwrap().clone();
                    for (e, ino, _off, _t, name) in rep.dirents(true) {
                        let Some(e) = e else { continue };
                        let dirn = nodes.get(&bino);
                        let cino = dirn.and_then(|d| d.children.get(&String::from_utf8_lossy(&name).to_string()).copied());
                        if let Some(cn) = cino.and_then(|c| nodes.get(&c)) {
                            wd.check_owner(out, "readdirplus", serial, (cn.uid, cn.gid), (e.uid, e.gid));
                            if ino != e.nodeid || e.ino != e.nodeid {
                                out.fail("route/readdirplus/ino-mismatch", format!("dirent ino {:#x}, entry nodeid {:#x}, attr.ino {:#x}", ino, e.nodeid, e.ino));
                            }
                        }
                    }
                }
                _ => {}
            }
        }
    }
}

fn two_inode_op(wd: &mut World, out: &mut Outcome, a: &KnownIno, b: &KnownIno, rename: bool, n1: &str, n2: &str) {
    // rename(olddir=a, n1 -> newdir=b, n2) or link(inode=a -> newparent=b, n1)
    let req = if rename {
        mkreq("RENAME", a.nodeid, 0, 0, &[("newdir", b.nodeid)], &[n1.as_bytes(), n2.as_bytes()], &[])
    } else {
        mkreq("LINK", b.nodeid, 0, 0, &[("oldnodeid", a.nodeid)], &[n1.as_bytes()], &[])
    };
    let what = if rename { "rename" } else { "link" };
    let (rep, log) = wd.w.call(&req);
    if wd.had_umount {
        wd.after_umount_req = true;
    }
    let live = |wd: &World, k: &KnownIno| match &k.owner {
        Owner::Pseudo(_) => true,
        Owner::Backend { serial, .. } => wd.mounts[*serial].live,
    };
    if !live(wd, a) || !live(wd, b) {
        // at least one stale: must not reach a backend if its slot is vacant
        for k in [a, b] {
            if !live(wd, k) {
                stale_check(wd, out, what, k, &rep, &log);
            }
        }
        return;
    }
    let ta = wd.target(a);
    let tb = wd.target(b);
    let unsafe_name = |n: &str| n == "." || n == "..";
    if unsafe_name(n1) || (rename && unsafe_name(n2)) {
        if !log.is_empty() || rep.error == 0 {
            out.fail(format!("route/{}/dot-name-accepted", what), "\".\"/\"..\" accepted by a two-inode operation");
        }
        return;
    }
    match (ta, tb) {
        (Some((sa, ia)), Some((sb, ib))) if sa == sb => {
            let (first, second) = if rename { ((sa, ia), ib) } else { ((sb, ib), ia) };
            wd.check_route(out, what, &log, Some(first), Some(second));
        }
        (None, None) => wd.check_route(out, what, &log, None, None),
        _ => {
            wd.cross_op = true;
            if !log.is_empty() {
                out.fail(format!("route/{}/cross-mount-reached-backend", what), format!("operation spanning two mounts reached a backend: {:?}", log));
            }
            if rep.error == 0 {
                out.fail(format!("route/{}/cross-mount-ok", what), "operation spanning two mounts succeeded");
            }
        }
    }
}

/// For every child of directory `k`: the inode number in LOOKUP, GETATTR, READDIR and READDIRPLUS agrees.
fn consistency(wd: &mut World, out: &mut Outcome, k: &KnownIno) {
    if let Owner::Backend { serial, .. } = &k.owner {
        if !wd.mounts[*serial].live {
            return;
        }
    }
    let rd = wd.w.call(&mkreq("READDIR", k.nodeid, 0, 0, &[("fh", 0), ("size", 8192)], &[], &[])).0;
    let rdp = wd.w.call(&mkreq("READDIRPLUS", k.nodeid, 0, 0, &[("fh", 0), ("size", 32768)], &[], &[])).0;
    let plain = rd.dirents(false);
    let plus = rdp.dirents(true);
    let mut by_name: BTreeMap<Vec<u8>, u64> = BTreeMap::new();
    for (_, ino, _, _, name) in &plain {
        by_name.insert(name.clone(), *ino);
    }
    for (e, ino, _, _, name) in &plus {
        if let Some(p) = by_name.get(name) {
            if p != ino {
                out.fail("route/consistency/readdir-vs-readdirplus", format!("{:?}: readdir ino {:#x}, readdirplus ino {:#x}", String::from_utf8_lossy(name), p, ino));
            }
        }
        if let Some(e) = e {
            if e.nodeid != 0 && e.nodeid != *ino {
                out.fail("route/consistency/plus-entry-vs-dirent", format!("{:?}: entry nodeid {:#x}, dirent ino {:#x}", String::from_utf8_lossy(name), e.nodeid, ino));
            }
        }
    }
    for (name, ino) in by_name {
        let l = wd.w.call(&mkreq("LOOKUP", k.nodeid, 0, 0, &[], &[&name], &[])).0;
        if let Some(e) = l.entry(0) {
            if e.nodeid != ino {
                out.fail("route/consistency/lookup-vs-readdir", format!("{:?}: lookup nodeid {:#x}, readdir ino {:#x}", String::from_utf8_lossy(&name), e.nodeid, ino));
            }
            let g = wd.w.call(&mkreq("GETATTR", e.nodeid, 0, 0, &[], &[], &[])).0;
            if let Some(a) = g.attr() {
                if a.ino != e.nodeid {
                    out.fail("route/consistency/getattr-vs-lookup", format!("{:?}: getattr ino {:#x}, lookup nodeid {:#x}", String::from_utf8_lossy(&name), a.ino, e.nodeid));
                }
            }
        }
    }
    wd.w.take_log();
}

// ---------------------------------------------------------------- strategies

fn node_spec(depth: u32) -> BoxedStrategy<NodeSpec> {
    let ids = prop_oneof![Just(0u32), Just(1000), Just(1005), Just(1009), Just(1010), Just(2000), Just(2005), Just(65534), 0u32..3000];
    let leaf = (prop_oneof![Just("a"), Just("b"), Just("c"), Just("x")], any::<bool>(), ids.clone(), ids.clone())
        .prop_map(|(n, dir, uid, gid)| NodeSpec { name: n.to_string(), dir, uid, gid, children: vec![] });
    if depth == 0 {
        leaf.boxed()
    } else {
        (prop_oneof![Just("a"), Just("b"), Just("c"), Just("x")], ids.clone(), ids, proptest::collection::vec(node_spec(depth - 1), 0..3))
            .prop_map(|(n, uid, gid, ch)| {
                let mut seen = BTreeSet::new();
                let children: Vec<NodeSpec> = ch.into_iter().filter(|c| seen.insert(c.name.clone())).collect();
                NodeSpec { name: n.to_string(), dir: true, uid, gid, children }
            })
            .boxed()
    }
}

/// Cross-field constraints of the generators, for cases that were recombined by the fuzz mutator:
/// a mapping is a valid configuration (base + range within 2^32, range > 0) and sibling names in
/// a backend tree are unique.
pub fn map_ok(m: &Map3) -> bool {
    m.0 as u64 + m.2 as u64 <= 1 << 32 && m.1 as u64 + m.2 as u64 <= 1 << 32
}
pub fn tree_ok(t: &TreeSpec) -> bool {
    fn uniq(ch: &[NodeSpec]) -> bool {
        let mut seen = BTreeSet::new();
        ch.iter().all(|c| !c.name.is_empty() && seen.insert(c.name.clone()) && uniq(&c.children))
    }
    uniq(&t.children)
}
pub fn in_domain(cs: &Case) -> bool {
    cs.global.iter().all(|m| map_ok(m) && m.2 > 0)
        && !cs.backends.is_empty()
        && cs.backends.iter().all(tree_ok)
        && cs.ops.iter().all(|o| match o {
            Op::Mount { map, .. } => map.iter().all(map_ok),
            _ => true,
        })
}

pub fn tree_spec() -> BoxedStrategy<TreeSpec> {
    let ids = prop_oneof![Just(0u32), Just(1000), Just(1005), Just(2003), 0u32..3000];
    (prop_oneof![Just(1u64), Just(2), Just(100), Just(1u64 << 39)], ids.clone(), ids, proptest::collection::vec(node_spec(1), 0..4))
        .prop_map(|(root_ino, root_uid, root_gid, ch)| {
            let mut seen = BTreeSet::new();
            let children: Vec<NodeSpec> = ch.into_iter().filter(|c| seen.insert(c.name.clone())).collect();
            TreeSpec { root_ino, root_uid, root_gid, children }
        })
        .boxed()
}

pub fn map_strategy() -> BoxedStrategy<Map3> {
    prop_oneof![
        3 => Just((1000u32, 2000u32, 10u32)),
        3 => Just((1000u32, 1005u32, 10u32)),       // overlapping
        2 => Just((1000u32, 1010u32, 10u32)),       // adjacent
        1 => Just((0u32, 100000u32, 65536u32)),
        1 => Just((5u32, 7u32, 1u32)),
        1 => Just((u32::MAX - 9, 1000u32, 10u32)),
        1 => Just((2000u32, 1000u32, 10u32)),
        2 => (0u32..3000, 0u32..3000, 1u32..50),
    ]
    .boxed()
}

pub fn id_strategy() -> BoxedStrategy<u32> {
    prop_oneof![
        Just(0u32), Just(999), Just(1000), Just(1004), Just(1005), Just(1009), Just(1010), Just(1014), Just(1015), Just(2000), Just(2005), Just(2009), Just(2010),
        Just(u32::MAX), Just(u32::MAX - 9), Just(5), Just(7), 0u32..3100
    ]
    .boxed()
}

fn rk() -> BoxedStrategy<RK> {
    let oid = proptest::option::of(id_strategy());
    prop_oneof![
        4 => Just(RK::Getattr),
        3 => (oid.clone(), oid).prop_map(|(uid, gid)| RK::Setattr { uid, gid }),
        6 => any::<u8>().prop_map(RK::Lookup),
        2 => any::<u8>().prop_map(RK::Create),
        2 => any::<u8>().prop_map(RK::Mkdir),
        1 => any::<u8>().prop_map(RK::Mknod),
        1 => any::<u8>().prop_map(RK::Symlink),
        1 => any::<u8>().prop_map(RK::Unlink),
        1 => any::<u8>().prop_map(RK::Rmdir),
        1 => Just(RK::Open), 1 => Just(RK::Opendir), 1 => Just(RK::Read), 1 => Just(RK::Write), 1 => Just(RK::Statfs), 1 => Just(RK::Getxattr),
        1 => Just(RK::Setxattr), 1 => Just(RK::Readlink), 1 => Just(RK::Access), 1 => Just(RK::Readdir), 3 => Just(RK::Readdirplus), 1 => Just(RK::Forget),
        1 => Just(RK::Release), 1 => Just(RK::Flush), 1 => Just(RK::Fsync), 1 => Just(RK::Fallocate),
        1 => prop_oneof![Just(RK::Lseek), Just(RK::Getlk), Just(RK::Bmap), Just(RK::Poll), Just(RK::Ioctl)],
        2 => Just(RK::Consistency),
    ]
    .boxed()
}

pub fn strategy(idmap: bool) -> BoxedStrategy<Case> {
    let mapopt = if idmap { prop_oneof![1 => Just(None), 2 => map_strategy().prop_map(Some)].boxed() } else { prop_oneof![6 => Just(None), 1 => map_strategy().prop_map(Some)].boxed() };
    // a per-mount mapping with range 0 is the identity and still overrides the global one (opt-out)
    let mount_map = prop_oneof![12 => mapopt.clone(), 1 => prop_oneof![Just((1000u32, 2000u32, 0u32)), Just((0u32, 0u32, 0u32))].prop_map(Some)].boxed();
    let op = prop_oneof![
        4 => (any::<u8>(), 0u8..PATHS.len() as u8, mount_map).prop_map(|(b, path, map)| Op::Mount { b, path, map }),
        2 => (0u8..PATHS.len() as u8).prop_map(|path| Op::Umount { path }),
        1 => prop_oneof![3 => 1u16..8, 1 => 200u16..300].prop_map(Op::Burst),
        6 => proptest::collection::vec(0u8..NAMES.len() as u8, 1..5).prop_map(Op::Walk),
        12 => (any::<u16>(), rk(), id_strategy(), id_strategy()).prop_map(|(sel, kind, uid, gid)| Op::Req { sel, kind, uid, gid }),
        2 => (any::<u16>(), any::<u16>(), 0u8..NAMES.len() as u8, 0u8..NAMES.len() as u8).prop_map(|(src, dst, n1, n2)| Op::Rename { src, dst, n1, n2 }),
        1 => (any::<u16>(), any::<u16>(), 0u8..NAMES.len() as u8).prop_map(|(src, dst, n)| Op::Link { src, dst, n }),
    ];
    (any::<bool>(), any::<bool>(), mapopt, proptest::collection::vec(tree_spec(), 1..4), proptest::collection::vec(op, 1..30))
        .prop_map(|(no_open, no_opendir, global, backends, ops)| Case { no_open, no_opendir, global, backends, ops })
        .boxed()
}

pub struct C07;

pub fn run_route(c: &Case) -> Outcome {
    let mut o = run(c);
    o.fails.retain(|f| f.sig.starts_with("route/") || f.sig.starts_with("panic/"));
    o.nontrivial = o.classes.iter().any(|c| c == "route:nontrivial");
    o
}

impl Prop for C07 {
    fn id(&self) -> &'static str {
        "C07"
    }
    fn meta(&self) -> Meta {
        Meta {
            rule: "histories (1..30 ops) over a Vfs behind Server with 1-3 scripted tree backends: mount/over-mount/umount at paths over {x,y,z} depth<=3 and \"/\", bursts of up to 300 mount+umount pairs (index wrap-around), LOOKUP walks from the root across mountpoints, every forwarded request kind on known inodes (incl. stale ones), rename/link within and across mounts, unforwarded ops, and a lookup/getattr/readdir/readdirplus consistency probe; oracle: model client_ino -> (mount, backend inode) learned from replies joined with backend call logs; non-trivial = >= 2 mounts and a request after an umount/over-mount; distinct = distinct serialized case",
            assumptions: vec![
                "backends number their directory entries consistently (readdir ino == lookup ino)".into(),
                "stale inode numbers whose 8-bit slot has been re-allocated are dropped from the model (aliasing is inherent, not claimed)".into(),
                "nested mounts below a mounted path are unreachable by design and only checked for not being reachable".into(),
            ],
            ..Meta::default()
        }
    }
    fn worker(&self, w: &WorkerCtx) -> WorkerResult {
        let n = w.share(w.tier.pick(80_000, 3_000_000));
        drive(w, "C07", "history", n, strategy(false), run_route)
    }
    fn replay(&self, _kind: &str, case: &Value) -> Vec<Fail> {
        let c: Case = serde_json::from_value(case.clone()).expect("case");
        run_route(&c).fails
    }
}

pub struct C14;

pub fn run_idmap(c: &Case) -> Outcome {
    let mut o = run(c);
    o.fails.retain(|f| f.sig.starts_with("idmap/") || f.sig.starts_with("panic/"));
    o.nontrivial = o.classes.iter().any(|c| c == "idmap:nontrivial");
    o
}

impl Prop for C14 {
    fn id(&self) -> &'static str {
        "C14"
    }
    fn meta(&self) -> Meta {
        Meta {
            rule: "C07 histories with a global and/or per-mount (internal, external, range) mapping on most mounts (disjoint, adjacent, overlapping, size-1, near u32::MAX ranges), caller and owner ids inside/outside/at both edges; oracle: arithmetic model map(v,from,to,n) applied per serving mount (its own mapping if given, else the global one): backend-logged Context ids == ext->int(header ids), setattr owner ids ext->int, every reply owner id == int->ext(backend value) applied once (lookup, getattr, setattr, create, mkdir, mknod, symlink, readdirplus, mount roots); non-trivial = a request through a mapped mount with an id inside the external range; distinct = distinct serialized case",
            assumptions: vec![
                "mappings are valid configurations: base + range does not exceed 2^32".into(),
                "requests addressed to node id 1 while a backend is mounted at \"/\" are served by that mount and must use its mapping".into(),
            ],
            ..Meta::default()
        }
    }
    fn worker(&self, w: &WorkerCtx) -> WorkerResult {
        let n = w.share(w.tier.pick(80_000, 3_000_000));
        drive(w, "C14", "history", n, strategy(true), run_idmap)
    }
    fn replay(&self, _kind: &str, case: &Value) -> Vec<Fail> {
        let c: Case = serde_json::from_value(case.clone()).expect("case");
        run_idmap(&c).fails
    }
}

#[allow(dead_code)]
fn _unused(_: Arc<Mutex<()>>, _: &Vfs) {
    let _ = codec::IN_HDR;
}
