//! C18 — a size-sealed export never lets a client change a file's size.
use crate::codec::{c, get, ssize};
use crate::engine::*;
use crate::jail as sys;
use crate::ptdrv::*;
use crate::vfsdrv::{call, mkreq, Rep};
use fuse_backend_rs::api::server::Server;
use fuse_backend_rs::passthrough::PassthroughFs;
use proptest::prelude::*;
use serde::{Deserialize, Serialize};
use serde_json::Value;
use std::sync::Arc;

pub const SIZES: &[usize] = &[0, 1, 100, 4096, 4097, 65536];
pub const NEWNAMES: &[&str] = &["n0", "n1"];

#[derive(Clone, Debug, Serialize, Deserialize, PartialEq)]
pub enum OffSel {
    Zero,
    Mid,
    SizeMinus1,
    Size,
    SizePlus1,
    Huge(u8),
    Abs(u32),
}

#[derive(Clone, Debug, Serialize, Deserialize, PartialEq)]
pub enum FlagWord {
    Handle,
    PlusAppend,
    MinusAppend,
    Random(u32),
}

#[derive(Clone, Debug, Serialize, Deserialize, PartialEq)]
pub enum SOp {
    Open { f: u8, flags: u32 },
    Create { name: u8, flags: u32 },
    Write { h: u8, off: OffSel, len: u32, fw: FlagWord, kill: bool },
    Setattr { f: u8, h: Option<u8>, size: Option<OffSel>, mode: Option<u32>, kill: bool },
    Fallocate { h: u8, mode: u32, off: OffSel, len: u32 },
    Read { h: u8, off: OffSel, len: u32 },
    Lseek { h: u8, off: OffSel, whence: u8 },
    Release { h: u8 },
}

#[derive(Clone, Debug, Serialize, Deserialize, PartialEq)]
pub struct Case {
    pub no_open: bool,
    pub writeback: bool,
    pub ops: Vec<SOp>,
}

struct W {
    _fs: Arc<PassthroughFs<()>>,
    srv: Server<Arc<PassthroughFs<()>>>,
    dir: String,
    no_open: bool,
    /// nodeid per name (pre-existing files first, then created ones)
    nodes: Vec<Option<u64>>,
    /// (fh, file index, flags) per open attempt (None = the open failed here)
    handles: Vec<Option<(u64, usize, u32)>>,
}

fn names() -> Vec<String> {
    let mut v: Vec<String> = (0..SIZES.len()).map(|i| format!("f{}", i)).collect();
    v.extend(NEWNAMES.iter().map(|s| s.to_string()));
    v
}

impl W {
    fn new(out: &mut Outcome, dir: &str, seal: bool, cs: &Case) -> Option<W> {
        sys::rm_rf(dir);
        std::fs::create_dir_all(dir).unwrap();
        for (i, n) in SIZES.iter().enumerate() {
            std::fs::write(format!("{}/f{}", dir, i), filedata(i as u32 + 1, *n)).unwrap();
            let _ = sys::chmod_path(format!("{}/f{}", dir, i).as_bytes(), 0o6755);
        }
        std::fs::create_dir_all(format!("{}/d", dir)).unwrap();
        let _ = sys::symlinkat(b"f2", libc::AT_FDCWD, format!("{}/l", dir).as_bytes());
        let cfg = PtCfg { seal_size: seal, no_open: cs.no_open, writeback: cs.writeback, cache: if cs.no_open { 3 } else { 2 }, killpriv_v2: true, ..PtCfg::default() };
        let fs = Arc::new(PassthroughFs::<()>::new(config_of(&cfg, dir, true)).ok()?);
        let srv = Server::new(fs.clone());
        let flags = FUSE_ALL;
        let rep = call(
            &srv,
            &mkreq("INIT", 0, 0, 0, &[("major", 7), ("minor", 38), ("flags", (flags & 0xffff_ffff) | c("FUSE_INIT_EXT")), ("flags2", flags >> 32)], &[], &[]),
        );
        if rep.error != 0 {
            out.fail("pt/init", format!("INIT {}", rep.error));
            return None;
        }
        let mut full = rep.body.clone();
        full.resize(ssize("fuse_init_out"), 0);
        let eff = get(&full, 0, "fuse_init_out", "flags");
        let mut w = W { _fs: fs, srv, dir: dir.to_string(), no_open: eff & c("FUSE_NO_OPEN_SUPPORT") != 0, nodes: vec![], handles: vec![] };
        for n in names() {
            let r = call(&w.srv, &mkreq("LOOKUP", 1, 0, 0, &[], &[n.as_bytes()], &[]));
            w.nodes.push(entry_of(&r, 0).map(|e| e.0));
        }
        Some(w)
    }
    fn size_of(&self, i: usize) -> Option<u64> {
        sys::lstat(&format!("{}/{}", self.dir, names()[i])).ok().map(|s| s.st_size as u64)
    }
    fn sizes(&self) -> Vec<Option<u64>> {
        (0..names().len()).map(|i| self.size_of(i)).collect()
    }
    fn content(&self, i: usize) -> Vec<u8> {
        std::fs::read(format!("{}/{}", self.dir, names()[i])).unwrap_or_default()
    }
}

fn off_of(sel: &OffSel, size: u64) -> u64 {
    match sel {
        OffSel::Zero => 0,
        OffSel::Mid => size / 2,
        OffSel::SizeMinus1 => size.saturating_sub(1),
        OffSel::Size => size,
        OffSel::SizePlus1 => size + 1,
        OffSel::Huge(k) => match k % 4 {
            0 => 1 << 40,
            1 => (1u64 << 63) - 1,
            2 => u64::MAX - (*k as u64),
            _ => 1 << 32,
        },
        OffSel::Abs(n) => *n as u64,
    }
}

/// perform one op on one world; returns the reply (None = nothing sent)
fn step(w: &mut W, op: &SOp) -> Option<Rep> {
    let nfiles = names().len();
    match op {
        SOp::Open { f, flags } => {
            let i = *f as usize % nfiles;
            let Some(id) = w.nodes[i] else {
                w.handles.push(None);
                return None;
            };
            if w.no_open {
                // zero-message open: handle-less I/O with the client's flags
                w.handles.push(Some((0, i, *flags)));
                return None;
            }
            let rep = call(&w.srv, &mkreq("OPEN", id, 0, 0, &[("flags", *flags as u64)], &[], &[]));
            w.handles.push(if rep.error == 0 { Some((get(&rep.body, 0, "fuse_open_out", "fh"), i, *flags)) } else { None });
            Some(rep)
        }
        SOp::Create { name, flags } => {
            let i = *name as usize % nfiles;
            let rep = call(&w.srv, &mkreq("CREATE", 1, 0, 0, &[("flags", *flags as u64), ("mode", 0o644)], &[names()[i].as_bytes()], &[]));
            if rep.error == 0 {
                let id = get(&rep.body, 0, "fuse_entry_out", "nodeid");
                w.nodes[i] = Some(id);
                let fh = get(&rep.body, ssize("fuse_entry_out"), "fuse_open_out", "fh");
                w.handles.push(Some((if w.no_open { 0 } else { fh }, i, *flags)));
            } else {
                w.handles.push(None);
            }
            Some(rep)
        }
        SOp::Write { h, off, len, fw, kill } => {
            let (fh, i, hflags) = pick_handle(w, *h)?;
            let id = w.nodes[i]?;
            let size = w.size_of(i).unwrap_or(0);
            let o = off_of(off, size);
            let flags = match fw {
                FlagWord::Handle => hflags,
                FlagWord::PlusAppend => hflags | libc::O_APPEND as u32,
                FlagWord::MinusAppend => hflags & !(libc::O_APPEND as u32),
                FlagWord::Random(r) => *r,
            };
            let data = filedata(*len ^ 0x55, (*len % 9000) as usize);
            let wf = if *kill { c("FUSE_WRITE_KILL_PRIV") } else { 0 };
            Some(call(
                &w.srv,
                &mkreq("WRITE", id, 0, 0, &[("fh", fh), ("offset", o), ("size", data.len() as u64), ("flags", flags as u64), ("write_flags", wf)], &[], &data),
            ))
        }
        SOp::Setattr { f, h, size, mode, kill } => {
            let i = *f as usize % nfiles;
            let id = w.nodes[i]?;
            let cur = w.size_of(i).unwrap_or(0);
            let mut valid = 0u64;
            let mut fl: Vec<(&str, u64)> = vec![];
            if let Some(hh) = h.and_then(|x| pick_handle(w, x)).filter(|x| x.1 == i && !w.no_open) {
                valid |= c("FATTR_FH");
                fl.push(("fh", hh.0));
            }
            if let Some(s) = size {
                valid |= c("FATTR_SIZE");
                fl.push(("size", off_of(s, cur)));
            }
            if let Some(m) = mode {
                valid |= c("FATTR_MODE");
                fl.push(("mode", (*m & 0o7777) as u64));
            }
            if *kill {
                valid |= c("FATTR_KILL_SUIDGID");
            }
            fl.push(("valid", valid));
            Some(call(&w.srv, &mkreq("SETATTR", id, 0, 0, &fl, &[], &[])))
        }
        SOp::Fallocate { h, mode, off, len } => {
            let (fh, i, _) = pick_handle(w, *h)?;
            let id = w.nodes[i]?;
            let size = w.size_of(i).unwrap_or(0);
            Some(call(&w.srv, &mkreq("FALLOCATE", id, 0, 0, &[("fh", fh), ("offset", off_of(off, size)), ("length", (*len as u64).max(1)), ("mode", *mode as u64)], &[], &[])))
        }
        SOp::Read { h, off, len } => {
            let (fh, i, hflags) = pick_handle(w, *h)?;
            let id = w.nodes[i]?;
            let size = w.size_of(i).unwrap_or(0);
            Some(call(&w.srv, &mkreq("READ", id, 0, 0, &[("fh", fh), ("offset", off_of(off, size).min(1 << 40)), ("size", (*len % 9000) as u64), ("flags", hflags as u64)], &[], &[])))
        }
        SOp::Lseek { h, off, whence } => {
            let (fh, i, _) = pick_handle(w, *h)?;
            if w.no_open {
                return None;
            }
            let id = w.nodes[i]?;
            let size = w.size_of(i).unwrap_or(0);
            Some(call(&w.srv, &mkreq("LSEEK", id, 0, 0, &[("fh", fh), ("offset", off_of(off, size).min(1 << 40)), ("whence", (*whence % 5) as u64)], &[], &[])))
        }
        SOp::Release { h } => {
            if w.handles.is_empty() {
                return None;
            }
            let k = *h as usize % w.handles.len();
            let (fh, i, fl) = w.handles[k]?;
            w.handles[k] = None;
            if w.no_open {
                return None;
            }
            let id = w.nodes[i]?;
            Some(call(&w.srv, &mkreq("RELEASE", id, 0, 0, &[("fh", fh), ("flags", fl as u64)], &[], &[])))
        }
    }
}

fn pick_handle(w: &W, h: u8) -> Option<(u64, usize, u32)> {
    if w.handles.is_empty() {
        return None;
    }
    w.handles[h as usize % w.handles.len()]
}

pub fn run(cs: &Case) -> Outcome {
    let mut out = Outcome::default();
    let (Some(mut sealed), Some(mut twin)) = (W::new(&mut out, "/sealed", true, cs), W::new(&mut out, "/twin", false, cs)) else { return out };
    let npre = SIZES.len();
    let initial: Vec<u64> = SIZES.iter().map(|s| *s as u64).collect();
    let mut tainted = vec![false; names().len()];
    let mut would_change = 0;
    for (k, op) in cs.ops.iter().enumerate() {
        let tb = twin.sizes();
        // keep the two handle tables aligned: an op naming a handle that exists in only one world is skipped in both
        let h_idx = match op {
            SOp::Write { h, .. } | SOp::Fallocate { h, .. } | SOp::Read { h, .. } | SOp::Lseek { h, .. } | SOp::Release { h } => Some(*h),
            _ => None,
        };
        if let Some(h) = h_idx {
            if pick_handle(&sealed, h).is_some() != pick_handle(&twin, h).is_some() {
                if let SOp::Release { .. } = op {
                    let _ = step(&mut sealed, op);
                    let _ = step(&mut twin, op);
                }
                continue;
            }
        }
        let rt = step(&mut twin, op);
        let rs = step(&mut sealed, op);
        let ta = twin.sizes();
        let opname = match op {
            SOp::Open { flags, .. } => format!("open{}{}", if *flags as i32 & libc::O_TRUNC != 0 { "+trunc" } else { "" }, if *flags as i32 & libc::O_APPEND != 0 { "+append" } else { "" }),
            SOp::Create { flags, .. } => format!("create{}", if *flags as i32 & libc::O_TRUNC != 0 { "+trunc" } else { "" }),
            SOp::Write { fw, .. } => format!("write:{}", match fw { FlagWord::Handle => "handle-flags", FlagWord::PlusAppend => "append-flag-added", FlagWord::MinusAppend => "append-flag-removed", FlagWord::Random(_) => "random-flags" }),
            SOp::Setattr { size, .. } => format!("setattr{}", if size.is_some() { "+size" } else { "" }),
            SOp::Fallocate { mode, .. } => format!("fallocate:mode={:#x}", mode),
            SOp::Read { .. } => "read".into(),
            SOp::Lseek { .. } => "lseek".into(),
            SOp::Release { .. } => "release".into(),
        };
        // (1) invariant: every pre-existing regular file keeps its size
        for i in 0..npre {
            let now = sealed.size_of(i);
            if now != Some(initial[i]) {
                out.fail(format!("seal/size-changed/{}", opname), format!("op {} ({:?}): pre-existing file f{} had {} bytes and now has {:?}", k, op, i, initial[i], now));
                return out;
            }
        }
        // (2) what changes a size without sealing must be refused with sealing
        // (the twin is a reference for a file only as long as the two have not diverged)
        let changed_all: Vec<usize> = (0..npre).filter(|i| tb[*i] != ta[*i]).collect();
        let changed: Vec<usize> = changed_all.iter().copied().filter(|i| !tainted[*i]).collect();
        for i in &changed_all {
            if tainted[*i] {
                tainted[*i] = true;
            }
        }
        if changed.is_empty() && !changed_all.is_empty() {
            continue;
        }
        if !changed.is_empty() {
            would_change += 1;
            out.class(format!("seal:would-change:{}", opname.split(':').next().unwrap_or("")));
            for i in &changed {
                tainted[*i] = true;
            }
            if let Some(r) = &rs {
                if r.error == 0 {
                    out.fail(format!("seal/not-refused/{}", opname), format!("op {} ({:?}) changes the size of f{} without sealing but was answered Ok with sealing", k, op, changed[0]));
                    return out;
                }
            }
        } else if let (Some(a), Some(b)) = (&rs, &rt) {
            // (3) within the current size: same behaviour as without sealing
            let exempt = matches!(op, SOp::Setattr { size: Some(_), .. }) || matches!(op, SOp::Open { .. } | SOp::Create { .. });
            let file = match op {
                SOp::Write { h, .. } | SOp::Fallocate { h, .. } | SOp::Read { h, .. } | SOp::Lseek { h, .. } => pick_handle(&sealed, *h).map(|x| x.1),
                SOp::Setattr { f, .. } => Some(*f as usize % names().len()),
                _ => None,
            };
            // O_DIRECT outcomes depend on the alignment of the transfer buffers, which differ between the two worlds
            let direct = match op {
                SOp::Write { h, fw, .. } => pick_handle(&sealed, *h).map(|x| x.2 as i32 & libc::O_DIRECT != 0).unwrap_or(false) || matches!(fw, FlagWord::Random(_)),
                SOp::Fallocate { h, .. } | SOp::Read { h, .. } | SOp::Lseek { h, .. } => pick_handle(&sealed, *h).map(|x| x.2 as i32 & libc::O_DIRECT != 0).unwrap_or(false),
                _ => false,
            };
            if direct {
                if let Some(f) = file {
                    tainted[f] = true;
                }
            }
            let is_tainted = direct || file.map(|f| tainted[f] || f >= npre).unwrap_or(false);
            // "stays within the current size" decided arithmetically, not by the twin's luck
            let size_now = file.and_then(|f| sealed.size_of(f)).unwrap_or(0);
            let within = match op {
                SOp::Write { off, len, .. } => off_of(off, size_now).checked_add((*len % 9000) as u64).map(|e| e <= size_now).unwrap_or(false),
                SOp::Fallocate { off, len, .. } => off_of(off, size_now).checked_add((*len as u64).max(1)).map(|e| e <= size_now).unwrap_or(false),
                _ => true,
            };
            if !exempt && !is_tainted && within && (a.error == 0) != (b.error == 0) {
                out.fail(format!("seal/differs-from-unsealed/{}", opname), format!("op {} ({:?}) stays within the file size: sealed answer {}, unsealed answer {}", k, op, a.error, b.error));
                return out;
            }
            if !exempt && !is_tainted && matches!(op, SOp::Read { .. }) && a.body != b.body {
                out.fail("seal/differs-from-unsealed/read-data", format!("op {}: read data differs from the unsealed twin", k));
                return out;
            }
            if (a.error == 0) != (b.error == 0) {
                if let Some(f) = file {
                    tainted[f] = true;
                }
            }
        }
    }
    // content of untainted pre-existing files equals the twin's
    for i in 0..npre {
        if !tainted[i] && sealed.content(i) != twin.content(i) {
            out.fail("seal/content-differs-from-unsealed", format!("f{}: content differs from the unsealed twin although no size-changing request touched it", i));
            break;
        }
    }
    out.nontrivial = would_change > 0;
    if cs.no_open {
        out.class("cfg:no_open");
    }
    out
}

fn strategy() -> BoxedStrategy<Case> {
    let offs = prop_oneof![
        2 => Just(OffSel::Zero), 2 => Just(OffSel::Mid), 2 => Just(OffSel::SizeMinus1), 3 => Just(OffSel::Size), 2 => Just(OffSel::SizePlus1),
        1 => any::<u8>().prop_map(OffSel::Huge), 2 => (0u32..70000).prop_map(OffSel::Abs)
    ];
    let oflags = (
        prop_oneof![Just(libc::O_RDONLY), Just(libc::O_WRONLY), Just(libc::O_RDWR)],
        proptest::collection::vec(prop_oneof![Just(libc::O_APPEND), Just(libc::O_TRUNC), Just(libc::O_CREAT), Just(libc::O_EXCL), Just(libc::O_DIRECT)], 0..3),
    )
        .prop_map(|(a, v)| (a | v.into_iter().fold(0, |x, y| x | y)) as u32);
    let lens = prop_oneof![Just(0u32), Just(1), Just(2), Just(100), Just(4096), 0u32..9000];
    let falloc = prop_oneof![
        Just(0u32), Just(1), Just(3), Just(0x10), Just(0x11), Just(0x08), Just(0x20), Just(0x40), Just(0x41), Just(0x02), 0u32..0x80
    ];
    let op = prop_oneof![
        5 => (any::<u8>(), oflags.clone()).prop_map(|(f, flags)| SOp::Open { f, flags }),
        2 => (any::<u8>(), oflags).prop_map(|(name, flags)| SOp::Create { name, flags }),
        8 => (any::<u8>(), offs.clone(), lens.clone(), prop_oneof![3 => Just(FlagWord::Handle), 2 => Just(FlagWord::PlusAppend), 1 => Just(FlagWord::MinusAppend), 1 => any::<u32>().prop_map(FlagWord::Random)], any::<bool>())
            .prop_map(|(h, off, len, fw, kill)| SOp::Write { h, off, len, fw, kill }),
        4 => (any::<u8>(), proptest::option::of(any::<u8>()), proptest::option::of(offs.clone()), proptest::option::of(0u32..0o10000), any::<bool>())
            .prop_map(|(f, h, size, mode, kill)| SOp::Setattr { f, h, size, mode, kill }),
        5 => (any::<u8>(), falloc, offs.clone(), lens.clone()).prop_map(|(h, mode, off, len)| SOp::Fallocate { h, mode, off, len }),
        2 => (any::<u8>(), offs.clone(), lens).prop_map(|(h, off, len)| SOp::Read { h, off, len }),
        1 => (any::<u8>(), offs, 0u8..5).prop_map(|(h, off, whence)| SOp::Lseek { h, off, whence }),
        1 => any::<u8>().prop_map(|h| SOp::Release { h }),
    ];
    (any::<bool>(), any::<bool>(), proptest::collection::vec(op, 1..30)).prop_map(|(no_open, writeback, ops)| Case { no_open, writeback, ops }).boxed()
}

pub struct C18;

impl Prop for C18 {
    fn id(&self) -> &'static str {
        "C18"
    }
    fn meta(&self) -> Meta {
        Meta {
            rule: "export with regular files of 0, 1, 100, 4096, 4097 and 65536 bytes (+ a directory and a symlink), seal_size=true x {no_open} x {writeback}; histories (1..30 ops) of open/create with every access mode x {O_APPEND,O_TRUNC,O_CREAT,O_EXCL,O_DIRECT}, writes at offsets {0, mid, size-1, size, size+1, 2^40, 2^63-1, near u64::MAX} x lengths x request flag word {handle's, +O_APPEND, -O_APPEND, random}, setattr with/without SIZE (+/-fh, mode, KILL_SUIDGID), fallocate with many mode words x ranges, read, lseek, release; the same history runs on an unsealed twin; oracle: (1) after EVERY request each pre-existing file has its initial size on the host, (2) a request that changes such a size on the twin is answered with an error here, (3) requests that leave sizes alone get the twin's answer and leave the twin's content; non-trivial = >= 1 request that changes a size on the twin; distinct = distinct serialized case",
            assumptions: vec![
                "setattr carrying SIZE is refused by design even when the size equals the current one; open/create replies are not compared with the twin".into(),
                "files created through the server are not 'pre-existing' and are excluded from (1)-(3)".into(),
            ],
            ..Meta::default()
        }
    }
    fn worker(&self, w: &WorkerCtx) -> WorkerResult {
        sys::enter();
        let n = w.share(w.tier.pick(20_000, 600_000));
        drive(w, "C18", "history", n, strategy(), run)
    }
    fn replay(&self, _kind: &str, case: &Value) -> Vec<Fail> {
        sys::enter();
        run(&serde_json::from_value(case.clone()).expect("case")).fails
    }
}
