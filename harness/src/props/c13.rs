//! C13 — wire structures and constants match the kernel's FUSE ABI.
use crate::codec::{self, layout};
use crate::engine::*;
use crate::mockfs::{StatSpec, StatfsSpec};
use crate::props::c03::stat_strategy;
use crate::props::c13_table::rust_layout;
use crate::reqgen::val_of_width;
use fuse_backend_rs::abi::fuse_abi::*;
use fuse_backend_rs::abi::virtio_fs::SetupmappingFlags;
use proptest::prelude::*;
use serde::{Deserialize, Serialize};
use serde_json::{json, Value};

pub struct C13;

fn c_size_expect(rname: &str, cname: &str) -> usize {
    match rname {
        "SetxattrIn" => codec::c("FUSE_COMPAT_SETXATTR_IN_SIZE") as usize,
        "InitIn" => 16,
        "InitIn2" => codec::ssize("fuse_init_in") - 16,
        _ => codec::ssize(cname),
    }
}

fn layout_obligations(e: &mut Enumerated) {
    let l = layout();
    for rs in rust_layout() {
        let cs = match l.structs.get(rs.cname) {
            Some(s) => s,
            None => {
                e.item(json!({"struct": rs.rname, "c": rs.cname}), "layout:struct", true, vec![Fail::new(format!("layout/{}/no-kernel-struct", rs.rname), "kernel struct missing in header")]);
                continue;
            }
        };
        let mut fails = vec![];
        let want = c_size_expect(rs.rname, rs.cname);
        if rs.size != want {
            fails.push(Fail::new(format!("layout/{}/size", rs.rname), format!("size_of::<{}>() = {} but kernel {} is {}", rs.rname, rs.size, rs.cname, want)));
        }
        e.item(json!({"struct": rs.rname, "c": rs.cname, "size": rs.size}), "layout:struct-size", true, fails);
        for f in &rs.fields {
            let mut fails = vec![];
            let cf = cs.fields.iter().find(|x| x.name == f.cname);
            if f.reserved {
                // reserved space: must not overlap any matched non-reserved kernel field -- implied by the other checks
                e.item(json!({"struct": rs.rname, "field": f.rname, "reserved": true, "offset": f.offset, "width": f.width}), "layout:reserved-field", false, vec![]);
                continue;
            }
            match cf {
                None => fails.push(Fail::new(format!("layout/{}.{}/no-kernel-field", rs.rname, f.rname), format!("kernel {} has no field {}", rs.cname, f.cname))),
                Some(cf) => {
                    let csize = if cf.size == 0 { 0 } else { cf.size };
                    if cf.offset != rs.base + f.offset {
                        fails.push(Fail::new(
                            format!("layout/{}.{}/offset", rs.rname, f.rname),
                            format!("{}.{} at offset {} but kernel {}.{} at {}", rs.rname, f.rname, rs.base + f.offset, rs.cname, f.cname, cf.offset),
                        ));
                    }
                    if csize != f.width {
                        fails.push(Fail::new(
                            format!("layout/{}.{}/width", rs.rname, f.rname),
                            format!("{}.{} is {} bytes but kernel {}.{} is {}", rs.rname, f.rname, f.width, rs.cname, f.cname, csize),
                        ));
                    }
                }
            }
            e.item(json!({"struct": rs.rname, "field": f.rname, "c_field": f.cname, "offset": rs.base + f.offset, "width": f.width}), "layout:field", true, fails);
        }
        // completeness: every kernel field inside the Rust struct's byte range is matched by name or lies in reserved space
        for cf in &cs.fields {
            if cf.offset < rs.base || cf.offset >= rs.base + rs.size || cf.size == 0 {
                continue;
            }
            let matched = rs.fields.iter().any(|f| !f.reserved && f.cname == cf.name);
            let in_reserved = rs.fields.iter().any(|f| f.reserved && cf.offset >= rs.base + f.offset && cf.offset + cf.size <= rs.base + f.offset + f.width);
            let mut fails = vec![];
            if !matched && !in_reserved {
                fails.push(Fail::new(format!("layout/{}/unmatched-kernel-field:{}", rs.rname, cf.name), format!("kernel field {}.{} has no counterpart", rs.cname, cf.name)));
            }
            e.item(json!({"struct": rs.rname, "kernel_field": cf.name}), "layout:kernel-field-covered", false, fails);
        }
    }
}

fn const_table() -> Vec<(&'static str, u64, &'static str)> {
    let mut v: Vec<(&'static str, u64, &'static str)> = vec![];
    macro_rules! op {
        ($($r:ident => $c:literal),* $(,)?) => { $( v.push((concat!("Opcode::", stringify!($r)), Opcode::$r as u32 as u64, $c)); )* };
    }
    op!(Lookup=>"FUSE_LOOKUP", Forget=>"FUSE_FORGET", Getattr=>"FUSE_GETATTR", Setattr=>"FUSE_SETATTR", Readlink=>"FUSE_READLINK", Symlink=>"FUSE_SYMLINK",
        Mknod=>"FUSE_MKNOD", Mkdir=>"FUSE_MKDIR", Unlink=>"FUSE_UNLINK", Rmdir=>"FUSE_RMDIR", Rename=>"FUSE_RENAME", Link=>"FUSE_LINK", Open=>"FUSE_OPEN",
        Read=>"FUSE_READ", Write=>"FUSE_WRITE", Statfs=>"FUSE_STATFS", Release=>"FUSE_RELEASE", Fsync=>"FUSE_FSYNC", Setxattr=>"FUSE_SETXATTR",
        Getxattr=>"FUSE_GETXATTR", Listxattr=>"FUSE_LISTXATTR", Removexattr=>"FUSE_REMOVEXATTR", Flush=>"FUSE_FLUSH", Init=>"FUSE_INIT",
        Opendir=>"FUSE_OPENDIR", Readdir=>"FUSE_READDIR", Releasedir=>"FUSE_RELEASEDIR", Fsyncdir=>"FUSE_FSYNCDIR", Getlk=>"FUSE_GETLK",
        Setlk=>"FUSE_SETLK", Setlkw=>"FUSE_SETLKW", Access=>"FUSE_ACCESS", Create=>"FUSE_CREATE", Interrupt=>"FUSE_INTERRUPT", Bmap=>"FUSE_BMAP",
        Destroy=>"FUSE_DESTROY", Ioctl=>"FUSE_IOCTL", Poll=>"FUSE_POLL", NotifyReply=>"FUSE_NOTIFY_REPLY", BatchForget=>"FUSE_BATCH_FORGET",
        Fallocate=>"FUSE_FALLOCATE", Readdirplus=>"FUSE_READDIRPLUS", Rename2=>"FUSE_RENAME2", Lseek=>"FUSE_LSEEK",
        CopyFileRange=>"FUSE_COPY_FILE_RANGE", SetupMapping=>"FUSE_SETUPMAPPING", RemoveMapping=>"FUSE_REMOVEMAPPING",
        CuseInitBswapReserved=>"CUSE_INIT_BSWAP_RESERVED", InitBswapReserved=>"FUSE_INIT_BSWAP_RESERVED");
    macro_rules! nt {
        ($($r:ident => $c:literal),* $(,)?) => { $( v.push((concat!("NotifyOpcode::", stringify!($r)), NotifyOpcode::$r as u32 as u64, $c)); )* };
    }
    nt!(Poll=>"FUSE_NOTIFY_POLL", InvalInode=>"FUSE_NOTIFY_INVAL_INODE", InvalEntry=>"FUSE_NOTIFY_INVAL_ENTRY", Store=>"FUSE_NOTIFY_STORE",
        Retrieve=>"FUSE_NOTIFY_RETRIEVE", Delete=>"FUSE_NOTIFY_DELETE", Resend=>"FUSE_NOTIFY_RESEND");
    macro_rules! fo {
        ($($r:ident => $c:literal),* $(,)?) => { $( v.push((concat!("FsOptions::", stringify!($r)), FsOptions::$r.bits(), $c)); )* };
    }
    fo!(ASYNC_READ=>"FUSE_ASYNC_READ", POSIX_LOCKS=>"FUSE_POSIX_LOCKS", FILE_OPS=>"FUSE_FILE_OPS", ATOMIC_O_TRUNC=>"FUSE_ATOMIC_O_TRUNC",
        EXPORT_SUPPORT=>"FUSE_EXPORT_SUPPORT", BIG_WRITES=>"FUSE_BIG_WRITES", DONT_MASK=>"FUSE_DONT_MASK", SPLICE_WRITE=>"FUSE_SPLICE_WRITE",
        SPLICE_MOVE=>"FUSE_SPLICE_MOVE", SPLICE_READ=>"FUSE_SPLICE_READ", FLOCK_LOCKS=>"FUSE_FLOCK_LOCKS", HAS_IOCTL_DIR=>"FUSE_HAS_IOCTL_DIR",
        AUTO_INVAL_DATA=>"FUSE_AUTO_INVAL_DATA", DO_READDIRPLUS=>"FUSE_DO_READDIRPLUS", READDIRPLUS_AUTO=>"FUSE_READDIRPLUS_AUTO",
        ASYNC_DIO=>"FUSE_ASYNC_DIO", WRITEBACK_CACHE=>"FUSE_WRITEBACK_CACHE", ZERO_MESSAGE_OPEN=>"FUSE_NO_OPEN_SUPPORT",
        PARALLEL_DIROPS=>"FUSE_PARALLEL_DIROPS", HANDLE_KILLPRIV=>"FUSE_HANDLE_KILLPRIV", POSIX_ACL=>"FUSE_POSIX_ACL", ABORT_ERROR=>"FUSE_ABORT_ERROR",
        MAX_PAGES=>"FUSE_MAX_PAGES", CACHE_SYMLINKS=>"FUSE_CACHE_SYMLINKS", ZERO_MESSAGE_OPENDIR=>"FUSE_NO_OPENDIR_SUPPORT",
        EXPLICIT_INVAL_DATA=>"FUSE_EXPLICIT_INVAL_DATA", MAP_ALIGNMENT=>"FUSE_MAP_ALIGNMENT", SUBMOUNTS=>"FUSE_SUBMOUNTS",
        HANDLE_KILLPRIV_V2=>"FUSE_HANDLE_KILLPRIV_V2", INIT_EXT=>"FUSE_INIT_EXT", PERFILE_DAX=>"FUSE_HAS_INODE_DAX", HAS_RESEND=>"FUSE_HAS_RESEND");
    macro_rules! sv {
        ($($r:ident => $c:literal),* $(,)?) => { $( v.push((concat!("SetattrValid::", stringify!($r)), SetattrValid::$r.bits() as u64, $c)); )* };
    }
    sv!(MODE=>"FATTR_MODE", UID=>"FATTR_UID", GID=>"FATTR_GID", SIZE=>"FATTR_SIZE", ATIME=>"FATTR_ATIME", MTIME=>"FATTR_MTIME",
        ATIME_NOW=>"FATTR_ATIME_NOW", MTIME_NOW=>"FATTR_MTIME_NOW", CTIME=>"FATTR_CTIME", KILL_SUIDGID=>"FATTR_KILL_SUIDGID");
    macro_rules! oo {
        ($($r:ident => $c:literal),* $(,)?) => { $( v.push((concat!("OpenOptions::", stringify!($r)), OpenOptions::$r.bits() as u64, $c)); )* };
    }
    oo!(DIRECT_IO=>"FOPEN_DIRECT_IO", KEEP_CACHE=>"FOPEN_KEEP_CACHE", NONSEEKABLE=>"FOPEN_NONSEEKABLE", CACHE_DIR=>"FOPEN_CACHE_DIR", STREAM=>"FOPEN_STREAM");
    macro_rules! io {
        ($($r:ident => $c:literal),* $(,)?) => { $( v.push((concat!("IoctlFlags::", stringify!($r)), IoctlFlags::$r.bits() as u64, $c)); )* };
    }
    io!(IOCTL_COMPAT=>"FUSE_IOCTL_COMPAT", IOCTL_UNRESTRICTED=>"FUSE_IOCTL_UNRESTRICTED", IOCTL_RETRY=>"FUSE_IOCTL_RETRY", IOCTL_32BIT=>"FUSE_IOCTL_32BIT",
        IOCTL_DIR=>"FUSE_IOCTL_DIR", IOCTL_COMPAT_X32=>"FUSE_IOCTL_COMPAT_X32", IOCTL_MAX_IOV=>"FUSE_IOCTL_MAX_IOV");
    v.push(("SetupmappingFlags::WRITE", SetupmappingFlags::WRITE.bits(), "FUSE_SETUPMAPPING_FLAG_WRITE"));
    v.push(("SetupmappingFlags::READ", SetupmappingFlags::READ.bits(), "FUSE_SETUPMAPPING_FLAG_READ"));
    macro_rules! pc {
        ($($r:ident => $c:literal),* $(,)?) => { $( v.push((stringify!($r), $r as u64, $c)); )* };
    }
    pc!(KERNEL_VERSION=>"FUSE_KERNEL_VERSION", ROOT_ID=>"FUSE_ROOT_ID", FATTR_FH=>"FATTR_FH", FATTR_LOCKOWNER=>"FATTR_LOCKOWNER",
        FOPEN_IN_KILL_SUIDGID=>"FUSE_OPEN_KILL_SUIDGID", FUSE_ATTR_DAX=>"FUSE_ATTR_DAX", RELEASE_FLUSH=>"FUSE_RELEASE_FLUSH",
        RELEASE_FLOCK_UNLOCK=>"FUSE_RELEASE_FLOCK_UNLOCK", GETATTR_FH=>"FUSE_GETATTR_FH", LK_FLOCK=>"FUSE_LK_FLOCK", WRITE_CACHE=>"FUSE_WRITE_CACHE",
        WRITE_LOCKOWNER=>"FUSE_WRITE_LOCKOWNER", WRITE_KILL_PRIV=>"FUSE_WRITE_KILL_PRIV", READ_LOCKOWNER=>"FUSE_READ_LOCKOWNER",
        ATTR_SUBMOUNT=>"FUSE_ATTR_SUBMOUNT", POLL_SCHEDULE_NOTIFY=>"FUSE_POLL_SCHEDULE_NOTIFY", FSYNC_FDATASYNC=>"FUSE_FSYNC_FDATASYNC",
        FUSE_MIN_READ_BUFFER=>"FUSE_MIN_READ_BUFFER", FUSE_COMPAT_ENTRY_OUT_SIZE=>"FUSE_COMPAT_ENTRY_OUT_SIZE", FUSE_COMPAT_ATTR_OUT_SIZE=>"FUSE_COMPAT_ATTR_OUT_SIZE",
        FUSE_COMPAT_MKNOD_IN_SIZE=>"FUSE_COMPAT_MKNOD_IN_SIZE", FUSE_COMPAT_WRITE_IN_SIZE=>"FUSE_COMPAT_WRITE_IN_SIZE",
        FUSE_COMPAT_STATFS_SIZE=>"FUSE_COMPAT_STATFS_SIZE", FUSE_COMPAT_INIT_OUT_SIZE=>"FUSE_COMPAT_INIT_OUT_SIZE",
        FUSE_COMPAT_22_INIT_OUT_SIZE=>"FUSE_COMPAT_22_INIT_OUT_SIZE");
    v
}

fn const_obligations(e: &mut Enumerated) {
    for (rname, rval, cname) in const_table() {
        let cv = codec::c(cname);
        let mut fails = vec![];
        if rval != cv {
            fails.push(Fail::new(format!("const/{}", rname), format!("{} = {:#x} but kernel {} = {:#x}", rname, rval, cname, cv)));
        }
        e.item(json!({"rust": rname, "kernel": cname, "value": cv}), "const", true, fails);
    }
    // FD_PASSTHROUGH has no upstream counterpart: must not collide with any kernel INIT flag
    let fdp = FsOptions::FD_PASSTHROUGH.bits();
    let l = layout();
    let mut fails = vec![];
    for (k, v) in &l.consts {
        let is_init_flag = k.starts_with("FUSE_")
            && ["FUSE_ASYNC_READ", "FUSE_POSIX_LOCKS", "FUSE_FILE_OPS", "FUSE_ATOMIC_O_TRUNC", "FUSE_EXPORT_SUPPORT", "FUSE_BIG_WRITES", "FUSE_DONT_MASK", "FUSE_SPLICE_WRITE", "FUSE_SPLICE_MOVE", "FUSE_SPLICE_READ", "FUSE_FLOCK_LOCKS", "FUSE_HAS_IOCTL_DIR", "FUSE_AUTO_INVAL_DATA", "FUSE_DO_READDIRPLUS", "FUSE_READDIRPLUS_AUTO", "FUSE_ASYNC_DIO", "FUSE_WRITEBACK_CACHE", "FUSE_NO_OPEN_SUPPORT", "FUSE_PARALLEL_DIROPS", "FUSE_HANDLE_KILLPRIV", "FUSE_POSIX_ACL", "FUSE_ABORT_ERROR", "FUSE_MAX_PAGES", "FUSE_CACHE_SYMLINKS", "FUSE_NO_OPENDIR_SUPPORT", "FUSE_EXPLICIT_INVAL_DATA", "FUSE_MAP_ALIGNMENT", "FUSE_SUBMOUNTS", "FUSE_HANDLE_KILLPRIV_V2", "FUSE_SETXATTR_EXT", "FUSE_INIT_EXT", "FUSE_SECURITY_CTX", "FUSE_HAS_INODE_DAX", "FUSE_CREATE_SUPP_GROUP", "FUSE_HAS_EXPIRE_ONLY", "FUSE_DIRECT_IO_ALLOW_MMAP", "FUSE_PASSTHROUGH", "FUSE_NO_EXPORT_SUPPORT", "FUSE_HAS_RESEND"].contains(&k.as_str());
        if is_init_flag && *v == fdp {
            fails.push(Fail::new("const/FD_PASSTHROUGH-collides", format!("FD_PASSTHROUGH collides with {}", k)));
        }
    }
    e.item(json!({"rust": "FsOptions::FD_PASSTHROUGH", "value": fdp, "rule": "no collision with a kernel INIT flag"}), "const", true, fails);
}

fn opcode_expect(v: u32) -> u32 {
    // identity on the opcodes the kernel defines up to REMOVEMAPPING, MaxOpcode elsewhere
    let l = layout();
    let defined = l.enums.iter().any(|(k, x)| {
        *x == v as u64 && k.starts_with("FUSE_") && !k.starts_with("FUSE_NOTIFY_") || (*x == v as u64 && k == "FUSE_NOTIFY_REPLY")
    }) && v <= codec::c("FUSE_REMOVEMAPPING") as u32
        && v >= 1;
    if defined {
        v
    } else {
        Opcode::MaxOpcode as u32
    }
}

fn opcode_range(e: &mut Enumerated, lo: u64, hi: u64, label: &str) {
    // precompute expectation for small values
    let small: Vec<u32> = (0..64u32).map(opcode_expect).collect();
    let maxop = Opcode::MaxOpcode as u32;
    let mut bad: Option<(u32, u32, u32)> = None;
    let mut v = lo;
    while v < hi {
        let x = v as u32;
        let got = Opcode::from(x) as u32;
        let want = if x < 64 { small[x as usize] } else { maxop };
        if got != want && bad.is_none() {
            bad = Some((x, got, want));
        }
        v += 1;
    }
    e.bulk(hi - lo, label);
    let fails = match bad {
        Some((x, got, want)) => vec![Fail::new(format!("opcode-from/{}", x), format!("Opcode::from({}) = {} expected {}", x, got, want))],
        None => vec![],
    };
    e.item(json!({"opcode_range": [lo, hi]}), "opcode-from:range", true, fails);
}

#[derive(Clone, Debug, Serialize, Deserialize)]
pub enum Conv {
    Stat(StatSpec, u32),
    Statfs(StatfsSpec),
    Setattr(Vec<u64>),
}

fn conv_strategy() -> BoxedStrategy<Conv> {
    prop_oneof![
        3 => (stat_strategy(), val_of_width(4)).prop_map(|(s, f)| Conv::Stat(s, f as u32)),
        1 => (val_of_width(8), val_of_width(8), val_of_width(8), val_of_width(8), val_of_width(8), val_of_width(8), val_of_width(8), val_of_width(8))
            .prop_map(|(blocks, bfree, bavail, files, ffree, bsize, namemax, frsize)| Conv::Statfs(StatfsSpec { blocks, bfree, bavail, files, ffree, bsize, namemax, frsize })),
        2 => proptest::collection::vec(val_of_width(8), 16..=16).prop_map(Conv::Setattr),
    ]
    .boxed()
}

fn run_conv(c: &Conv) -> Outcome {
    let mut out = Outcome::default();
    out.nontrivial = true;
    match c {
        Conv::Stat(s, flags) => {
            out.class("conv:stat->attr->stat");
            let st = s.to_stat();
            let a = Attr::with_flags(st, *flags);
            let exp: [(&str, u64, u64); 16] = [
                ("ino", a.ino, s.ino),
                ("size", a.size, s.size as u64),
                ("blocks", a.blocks, s.blocks as u64),
                ("atime", a.atime, s.atime as u64),
                ("mtime", a.mtime, s.mtime as u64),
                ("ctime", a.ctime, s.ctime as u64),
                ("atimensec", a.atimensec as u64, s.atime_nsec as u32 as u64),
                ("mtimensec", a.mtimensec as u64, s.mtime_nsec as u32 as u64),
                ("ctimensec", a.ctimensec as u64, s.ctime_nsec as u32 as u64),
                ("mode", a.mode as u64, s.mode as u64),
                ("nlink", a.nlink as u64, s.nlink as u32 as u64),
                ("uid", a.uid as u64, s.uid as u64),
                ("gid", a.gid as u64, s.gid as u64),
                ("rdev", a.rdev as u64, s.rdev as u32 as u64),
                ("blksize", a.blksize as u64, s.blksize as u32 as u64),
                ("flags", a.flags as u64, *flags as u64),
            ];
            for (k, g, w) in exp {
                if g != w {
                    out.fail(format!("conv/stat->attr/{}", k), format!("Attr.{} = {:#x} expected {:#x}", k, g, w));
                }
            }
            let a0: Attr = st.into();
            if a0.flags != 0 {
                out.fail("conv/stat->attr/flags-default", "Attr::from(stat) sets flags");
            }
            // attr -> stat -> attr is the identity (flags aside)
            let st2: stat64 = a.into();
            let a2 = Attr::with_flags(st2, *flags);
            let b1 = vm_memory::ByteValued::as_slice(&a).to_vec();
            let b2 = vm_memory::ByteValued::as_slice(&a2).to_vec();
            if b1 != b2 {
                let ff = codec::leaf_fields("fuse_attr").into_iter().find(|(_, o, sz)| b1[*o..*o + *sz] != b2[*o..*o + *sz]).map(|x| x.0).unwrap_or_default();
                out.fail(format!("conv/attr->stat->attr/{}", ff), format!("round trip changes fuse_attr.{}", ff));
            }
        }
        Conv::Statfs(s) => {
            out.class("conv:statvfs->kstatfs");
            let mut st: statvfs64 = unsafe { std::mem::zeroed() };
            st.f_blocks = s.blocks;
            st.f_bfree = s.bfree;
            st.f_bavail = s.bavail;
            st.f_files = s.files;
            st.f_ffree = s.ffree;
            st.f_bsize = s.bsize;
            st.f_namemax = s.namemax;
            st.f_frsize = s.frsize;
            let k = Kstatfs::from(st);
            let exp = [
                ("blocks", k.blocks, s.blocks),
                ("bfree", k.bfree, s.bfree),
                ("bavail", k.bavail, s.bavail),
                ("files", k.files, s.files),
                ("ffree", k.ffree, s.ffree),
                ("bsize", k.bsize as u64, s.bsize as u32 as u64),
                ("namelen", k.namelen as u64, s.namemax as u32 as u64),
                ("frsize", k.frsize as u64, s.frsize as u32 as u64),
            ];
            for (kk, g, w) in exp {
                if g != w {
                    out.fail(format!("conv/statvfs->kstatfs/{}", kk), format!("{} = {:#x} expected {:#x}", kk, g, w));
                }
            }
        }
        Conv::Setattr(v) => {
            out.class("conv:setattr_in->stat");
            let si = SetattrIn {
                valid: v[0] as u32,
                padding: 0,
                fh: v[1],
                size: v[2],
                lock_owner: v[3],
                atime: v[4],
                mtime: v[5],
                ctime: v[6],
                atimensec: v[7] as u32,
                mtimensec: v[8] as u32,
                ctimensec: v[9] as u32,
                mode: v[10] as u32,
                unused4: 0,
                uid: v[11] as u32,
                gid: v[12] as u32,
                unused5: 0,
            };
            let st: stat64 = si.into();
            let exp = [
                ("mode", st.st_mode as u64, v[10] as u32 as u64),
                ("uid", st.st_uid as u64, v[11] as u32 as u64),
                ("gid", st.st_gid as u64, v[12] as u32 as u64),
                ("size", st.st_size as u64, v[2]),
                ("atime", st.st_atime as u64, v[4]),
                ("mtime", st.st_mtime as u64, v[5]),
                ("ctime", st.st_ctime as u64, v[6]),
                ("atimensec", st.st_atime_nsec as u64, v[7] as u32 as u64),
                ("mtimensec", st.st_mtime_nsec as u64, v[8] as u32 as u64),
                ("ctimensec", st.st_ctime_nsec as u64, v[9] as u32 as u64),
            ];
            for (kk, g, w) in exp {
                if g != w {
                    out.fail(format!("conv/setattr_in->stat/{}", kk), format!("{} = {:#x} expected {:#x}", kk, g, w));
                }
            }
        }
    }
    out
}

impl Prop for C13 {
    fn id(&self) -> &'static str {
        "C13"
    }
    fn meta(&self) -> Meta {
        Meta {
            rule: "enumerated obligations: one per (struct size), (struct, named field: offset+width vs the C compiler's offsetof/sizeof on linux/fuse.h), (kernel field covered), (constant value), plus Opcode::from over ranges of u32 (quick: 0..2^20 + all single bits + boundary block; thorough: all 2^32) and generated stat/statvfs/setattr conversion values; non-trivial = a named field / constant / range / conversion case; distinct = distinct obligation or value",
            assumptions: vec![
                "trusted base: /usr/include/linux/fuse.h (7.38) compiled by gcc, plus abi/supplement.json for FUSE_HAS_RESEND, FUSE_NOTIFY_RESEND and fuse_open_out.backing_id".into(),
                "Rust<->C name map harness/src/props/c13_table.rs (committed); reserved fields (padding/unused/dummy/spare) are matched by byte range, not by name".into(),
                "SetxattrIn is the 8-byte compat layout; InitIn+InitIn2 together are fuse_init_in".into(),
            ],
            workers_quick: 8,
            workers_thorough: 16,
            ..Meta::default()
        }
    }
    fn worker(&self, w: &WorkerCtx) -> WorkerResult {
        let mut e = Enumerated::new(w, "C13", "obligation");
        if w.idx == 0 {
            layout_obligations(&mut e);
            const_obligations(&mut e);
            e.res.exhaustive_parts.push("struct/field layout table".into());
            e.res.exhaustive_parts.push("constant table".into());
        }
        // Opcode::from
        let total: u64 = w.tier.pick(1 << 20, 1 << 32);
        let per = total / w.n as u64;
        let lo = per * w.idx as u64;
        let hi = if w.idx + 1 == w.n { total } else { lo + per };
        opcode_range(&mut e, lo, hi, "opcode-from:value");
        if w.idx == 0 {
            for b in 0..32 {
                let v = 1u64 << b;
                opcode_range(&mut e, v, v + 1, "opcode-from:value");
                opcode_range(&mut e, v - 1, v, "opcode-from:value");
            }
            opcode_range(&mut e, (1u64 << 32) - 4096, 1u64 << 32, "opcode-from:value");
            if w.tier == Tier::Thorough {
                e.res.exhaustive_parts.push("Opcode::from over all 2^32 values".into());
            }
        }
        let mut r = e.res;
        let n = w.share(w.tier.pick(40_000, 2_000_000));
        r.merge(drive(w, "C13", "conv", n, conv_strategy(), run_conv));
        r
    }
    fn replay(&self, kind: &str, case: &Value) -> Vec<Fail> {
        if kind == "conv" {
            let c: Conv = serde_json::from_value(case.clone()).expect("case");
            return run_conv(&c).fails;
        }
        // obligations are deterministic: recompute all and report those matching the saved one
        let w = WorkerCtx { tier: Tier::Quick, idx: 0, n: 1, seed: 0, known: Known::default(), journal: None };
        let mut e = Enumerated::new(&w, "C13", "obligation");
        layout_obligations(&mut e);
        const_obligations(&mut e);
        if let Some(r) = case.get("opcode_range").and_then(|r| r.as_array()) {
            opcode_range(&mut e, r[0].as_u64().unwrap(), r[1].as_u64().unwrap(), "x");
        }
        e.res.violation.map(|v| vec![Fail::new(v.sig, v.msg)]).unwrap_or_default()
    }
}
