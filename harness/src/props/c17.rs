//! C17 — guest memory written by the server is always marked dirty (and nothing else is).
use crate::codec;
use crate::engine::*;
use crate::mockfs::*;
use crate::props::c02::chain_strategy;
use crate::props::c03;
use crate::props::c04;
use crate::transport::{self, ChainSpec};
use fuse_backend_rs::api::server::Server;
use proptest::prelude::*;
use serde::{Deserialize, Serialize};
use serde_json::Value;
use std::collections::BTreeSet;
use std::sync::Arc;

pub struct C17;

#[derive(Clone, Debug, Serialize, Deserialize)]
pub struct MsgCase {
    pub inner: c03::Case,
    /// lie in the header length field (oversized request path)
    pub oversize: bool,
    pub cap_extra: u16,
}

pub fn msg_strategy() -> BoxedStrategy<MsgCase> {
    let ops = prop_oneof![
        5 => Just("READ"), 3 => Just("READDIR"), 3 => Just("READDIRPLUS"), 2 => Just("GETXATTR"), 2 => Just("LOOKUP"), 1 => Just("GETATTR"),
        1 => Just("READLINK"), 1 => Just("STATFS"), 1 => Just("CREATE"), 1 => Just("WRITE"), 1 => Just("IOCTL"), 1 => Just("UNLINK"), 1 => Just("LISTXATTR")
    ];
    (ops, chain_strategy(), any::<u64>(), prop_oneof![Just(0u32), Just(1), Just(17), Just(4096), Just(4097), Just(65536), 0u32..70000], any::<bool>(), 0u16..9000, 0u8..10)
        .prop_flat_map(|(op, chain, unique, size, partial, extra, sel)| {
            let res = if op == "READ" && partial && sel < 3 {
                proptest::collection::vec(any::<u8>(), 0..20000).prop_map(|data| MockRes::Read { data, mode: ReadMode::PartialThenErr }).boxed()
            } else if sel == 9 {
                c03::err_strategy().prop_map(MockRes::Err).boxed()
            } else {
                c03::ok_result(op, 65536)
            };
            (Just(op), res, Just(chain), Just(unique), Just(size), Just(extra), Just(sel))
        })
        .prop_map(|(op, res, chain, unique, size, extra, sel)| MsgCase {
            inner: c03::Case { op: op.to_string(), res, unique, size, virtio: Some(chain), minor: None },
            oversize: sel == 8,
            cap_extra: extra,
        })
        .boxed()
}

pub fn run_msg(c: &MsgCase) -> Outcome {
    let mut out = Outcome::default();
    let cs = &c.inner;
    let fs = Arc::new(MockFs::new(cs.res.clone()));
    let srv = Server::new(fs.clone());
    // build the request like C03 does
    let mut req = {
        use crate::codec::Hdr;
        use crate::reqgen::{NameB, Req};
        let mut fields = std::collections::BTreeMap::new();
        let d = crate::reqgen::opdef(&cs.op);
        let mut names = vec![];
        for _ in 0..d.names {
            names.push(NameB(b"nm".to_vec()));
        }
        let mut payload = vec![];
        match cs.op.as_str() {
            "READ" | "READDIR" | "READDIRPLUS" | "GETXATTR" | "LISTXATTR" => {
                fields.insert("size".to_string(), cs.size as u64);
            }
            "IOCTL" => {
                fields.insert("out_size".to_string(), (cs.size % 4097) as u64);
            }
            "WRITE" => {
                payload = vec![0x55; (cs.size % 5000) as usize];
                fields.insert("size".to_string(), payload.len() as u64);
            }
            _ => {}
        }
        Req { op: cs.op.clone(), hdr: Hdr { opcode: 0, unique: cs.unique, nodeid: 1, uid: 0, gid: 0, pid: 1 }, fields, names, payload, items: vec![] }
    };
    let room = 16 + req.reply_room() + c.cap_extra as usize;
    let mut bytes = req.encode();
    if c.oversize {
        bytes[0..4].copy_from_slice(&((1u32 << 20) + 4096 + 1).to_le_bytes());
        out.class("msg:oversize-header");
    }
    req.op.clear();
    let mut spec: ChainSpec = cs.virtio.clone().unwrap();
    spec.fit_writable(room);
    let (d, env) = transport::serve_virtio(&srv, &bytes, &spec, true);
    out.class(format!("msg:{}", cs.op));
    // written ranges
    let mut ranges: Vec<(usize, usize)> = vec![];
    if let Some(r) = d.replies.first() {
        ranges.push((0, r.len()));
    }
    let produced = fs.produced.lock().unwrap().len();
    if cs.op == "READ" && produced > 0 {
        ranges.push((16, produced));
    }
    {
        // directory entries handed over before the filesystem failed stay behind the error reply
        let dr = fs.dir_returns.lock().unwrap();
        // (also when add_entry itself refused an entry and the mock passed that error on: marker -1)
        if dr.iter().any(|r| *r == crate::mockfs::DIR_FAILED || *r == -1) {
            let n: i64 = dr.iter().filter(|x| **x > 0).sum();
            if n > 0 {
                ranges.push((16, n as usize));
            }
        }
    }
    let mut exp = BTreeSet::new();
    for (s, n) in &ranges {
        for p in env.pages_of_wrange(*s, *n) {
            exp.insert(p);
        }
    }
    // validate the model against a byte diff: changed bytes lie inside the written ranges
    let now = env.wbytes();
    let before = env.wbytes_before();
    for k in 0..now.len() {
        if now[k] != before[k] && !ranges.iter().any(|(s, n)| k >= *s && k < s + n) {
            out.fail("dirty/model-mismatch", format!("byte {} of the writable chain changed outside the modelled written ranges {:?}", k, ranges));
            return out;
        }
    }
    let got: BTreeSet<u64> = d.dirty_pages.iter().copied().collect();
    if let Some(p) = exp.difference(&got).next() {
        out.fail(format!("dirty/missing/{}", cs.op), format!("page {:#x} was written (ranges {:?}) but is not marked dirty", p, ranges));
    }
    if let Some(p) = got.difference(&exp).next() {
        out.fail(format!("dirty/spurious/{}", cs.op), format!("page {:#x} is marked dirty but the server wrote nothing there (ranges {:?})", p, ranges));
    }
    let total: usize = now.len();
    let written: usize = ranges.iter().map(|r| r.1).max().unwrap_or(0);
    out.nontrivial = exp.len() >= 2 && written < total;
    if out.nontrivial {
        out.class("dirty:multi-page-with-unwritten-remainder");
    }
    let _ = codec::OUT_HDR;
    out
}

fn run_ops(c: &c04::Case) -> Outcome {
    let mut o = c04::run(c);
    o.fails.retain(|f| f.sig.starts_with("dirty/"));
    o.nontrivial = o.classes.iter().any(|c| c == "dirty:multi-page-with-unwritten-remainder") || (o.nontrivial && matches!(c, c04::Case::Reader { .. }));
    o
}

impl Prop for C17 {
    fn id(&self) -> &'static str {
        "C17"
    }
    fn meta(&self) -> Meta {
        Meta {
            rule: "GuestMemoryMmap<AtomicBitmap> (4 KiB pages) with random descriptor chains at arbitrary page offsets (segments straddling pages, several per page, 3 regions) x (a) writer/reader op sequences of C04 through VirtioFsWriter/Reader, (b) whole requests through handle_message with a scripted fs (READ via write/write_from/both/partial-then-error, READDIR(PLUS), GETXATTR, LOOKUP, error and oversize-header replies); oracle: dirty set == pages intersecting the modelled written ranges, model cross-checked by a byte diff; non-trivial = >= 2 written pages with an unwritten remainder (or a reader sequence with a split/crossing); distinct = distinct serialized case",
            assumptions: vec![
                "written ranges for whole requests: the reply message [0,len) plus, for READ, the bytes the filesystem produced at [16,16+n)".into(),
                "bitmap page size 4096 (AtomicBitmap default on this host)".into(),
            ],
            ..Meta::default()
        }
    }
    fn worker(&self, w: &WorkerCtx) -> WorkerResult {
        let n = w.share(w.tier.pick(30_000, 800_000));
        let mut r = drive(w, "C17", "ops", n, c04::strategy(w.tier, true), run_ops);
        let m = w.share(w.tier.pick(20_000, 500_000));
        r.merge(drive(w, "C17", "msg", m, msg_strategy(), run_msg));
        r
    }
    fn replay(&self, kind: &str, case: &Value) -> Vec<Fail> {
        if kind == "msg" {
            let c: MsgCase = serde_json::from_value(case.clone()).expect("case");
            run_msg(&c).fails
        } else {
            let c: c04::Case = serde_json::from_value(case.clone()).expect("case");
            run_ops(&c).fails
        }
    }
}
