//! C15 — handles and descriptors are released when the client releases them.
use crate::codec::{c, get, ssize};
use crate::engine::*;
use crate::jail as sys;
use crate::props::c05::{self, Case, POp};
use crate::ptdrv::*;
use crate::transport::{serve_fusedev_on, SockPair};
use crate::vfsdrv::{mkreq, Rep};
use proptest::prelude::*;
use serde::{Deserialize, Serialize};
use serde_json::Value;

fn op_strategy() -> BoxedStrategy<POp> {
    let base = c05::op_strategy();
    prop_oneof![
        10 => base,
        3 => (any::<u16>(), prop_oneof![Just(libc::O_RDONLY as u32), Just(libc::O_RDWR as u32)]).prop_map(|(n, flags)| POp::Open { n, flags }),
        2 => any::<u16>().prop_map(|h| POp::Release { h }),
        2 => (any::<u16>(), any::<bool>(), prop_oneof![Just(300u32), Just(4096)]).prop_map(|(n, plus, size)| POp::Listdir { n, plus, size }),
        2 => (any::<u16>(), any::<u8>()).prop_map(|(n, extra)| POp::ForgetAll { n, extra }),
        1 => Just(POp::Reinit),
        2 => (any::<u16>(), any::<u16>()).prop_map(|(h, n)| POp::BadHandle { h, n }),
    ]
    .boxed()
}

fn strategy() -> BoxedStrategy<Case> {
    (any::<bool>(), any::<bool>(), any::<bool>(), c05::tree_strategy(), proptest::collection::vec(op_strategy(), 1..40))
        .prop_map(|(no_open, no_opendir, file_handles, tree, ops)| Case { cfg: PtCfg { no_open, no_opendir, file_handles, cache: if no_open { 3 } else { 2 }, ..PtCfg::default() }, tree, ops })
        .boxed()
}

fn baseline_of(cfg: &PtCfg) -> Option<(usize, (usize, usize, usize, usize))> {
    // a freshly started server over the same directories
    let mut o = Outcome::default();
    let before = sys::fd_count();
    let pt = Pt::new(&mut o, cfg, "/export", "/shadow")?;
    let fds = sys::fd_count() - before;
    let t = pt.fs.verif_table_sizes();
    Some((fds, t))
}

pub fn run(cs: &Case) -> Outcome {
    let mut out = Outcome::default();
    fresh_dirs(&["/export", "/shadow"]);
    materialise("/export", &cs.tree);
    materialise("/shadow", &cs.tree);
    let Some((fresh_fds, fresh_tables)) = baseline_of(&cs.cfg) else {
        out.fail("pt/baseline", "cannot start a fresh server");
        return out;
    };
    let fd0 = sys::fd_count();
    let Some(mut pt) = Pt::new(&mut out, &cs.cfg, "/export", "/shadow") else { return out };
    let mut had_open_release = false;
    let mut reinit = false;
    for op in &cs.ops {
        c05::apply(&mut pt, &mut out, op);
        if matches!(op, POp::Release { .. }) && pt.handles.iter().any(|h| !h.live) {
            had_open_release = true;
        }
        if matches!(op, POp::Reinit) {
            reinit = true;
        }
        if !out.fails.is_empty() {
            break;
        }
    }
    let failed_ops = out.fails.iter().any(|f| !f.sig.starts_with("handle/") && !f.sig.starts_with("leak/"));
    out.fails.retain(|f| ["handle/", "leak/", "harness/", "pt/", "panic/"].iter().any(|p| f.sig.starts_with(p)));
    if out.fails.is_empty() && !failed_ops {
        pt.release_everything(&mut out);
        // model-side descriptors do not count: the root mirror is the only one left
        let tables = pt.fs.verif_table_sizes();
        let held = sys::fd_count() - fd0;
        if tables != fresh_tables {
            out.fail(
                if tables.0 != fresh_tables.0 { "leak/inode-objects" } else if tables.1 != fresh_tables.1 { "leak/handles" } else if tables.2 != fresh_tables.2 { "leak/dir-position-records" } else { "leak/mount-fds" },
                format!("after releasing everything the server holds (inodes, handles, cookies, mount fds) = {:?}, a fresh server holds {:?}", tables, fresh_tables),
            );
        }
        if held != fresh_fds {
            out.fail(
                if reinit { "leak/fds-after-reinit" } else { "leak/fds" },
                format!("after releasing everything {} descriptors are open for this server, a fresh server needs {}", held, fresh_fds),
            );
        }
    }
    out.nontrivial = had_open_release;
    if reinit {
        out.class("handle:reinit");
    }
    if cs.cfg.file_handles {
        out.class("cfg:file_handles");
    }
    if cs.cfg.no_open {
        out.class("cfg:no_open");
    }
    out
}

// ---------------------------------------------------------------- EMFILE enumeration

#[derive(Clone, Debug, Serialize, Deserialize, PartialEq)]
pub enum FOp {
    Lookup(u16, u8),
    Create(u16, u8),
    Mkdir(u16, u8),
    Open(u16),
    Opendir(u16),
    Readdir(u16, bool),
    Getattr(u16),
    Truncate(u16),
    Release(u16),
    Forget(u16),
    Reinit,
}

#[derive(Clone, Debug, Serialize, Deserialize, PartialEq)]
pub struct FCase {
    pub cfg: PtCfg,
    pub tree: Vec<TreeObj>,
    pub ops: Vec<FOp>,
}

fn fstrategy() -> BoxedStrategy<FCase> {
    let op = prop_oneof![
        5 => (any::<u16>(), 0u8..6).prop_map(|(p, n)| FOp::Lookup(p, n)),
        3 => (any::<u16>(), 0u8..6).prop_map(|(p, n)| FOp::Create(p, n)),
        1 => (any::<u16>(), 0u8..6).prop_map(|(p, n)| FOp::Mkdir(p, n)),
        4 => any::<u16>().prop_map(FOp::Open),
        3 => any::<u16>().prop_map(FOp::Opendir),
        3 => (any::<u16>(), any::<bool>()).prop_map(|(h, p)| FOp::Readdir(h, p)),
        2 => any::<u16>().prop_map(FOp::Getattr),
        2 => any::<u16>().prop_map(FOp::Truncate),
        2 => any::<u16>().prop_map(FOp::Release),
        2 => any::<u16>().prop_map(FOp::Forget),
        1 => Just(FOp::Reinit),
    ];
    (any::<bool>(), any::<bool>(), any::<bool>(), c05::tree_strategy(), proptest::collection::vec(op, 1..16))
        .prop_map(|(no_open, no_opendir, file_handles, tree, ops)| FCase { cfg: PtCfg { no_open, no_opendir, file_handles, cache: if no_open { 3 } else { 2 }, ..PtCfg::default() }, tree, ops })
        .boxed()
}

struct Fault {
    placeholders: Vec<i32>,
    old: libc::rlimit,
}

/// plug every hole in the descriptor table and allow exactly `n` more descriptors
fn fault_window(n: usize) -> Fault {
    let mut used = std::collections::BTreeSet::new();
    if let Ok(rd) = std::fs::read_dir("/proc/self/fd") {
        for e in rd.flatten() {
            if let Ok(v) = e.file_name().to_string_lossy().parse::<i32>() {
                used.insert(v);
            }
        }
    }
    // the directory handle used for listing is closed again by now: recompute the top
    let top = used.iter().copied().filter(|fd| unsafe { libc::fcntl(*fd, libc::F_GETFD) } >= 0).max().unwrap_or(2);
    let mut placeholders = vec![];
    loop {
        let fd = unsafe { libc::dup(0) };
        if fd < 0 {
            break;
        }
        if fd > top {
            unsafe { libc::close(fd) };
            break;
        }
        placeholders.push(fd);
    }
    let mut old = libc::rlimit { rlim_cur: 0, rlim_max: 0 };
    unsafe {
        libc::getrlimit(libc::RLIMIT_NOFILE, &mut old);
        let new = libc::rlimit { rlim_cur: (top as u64 + 1 + n as u64), rlim_max: old.rlim_max };
        libc::setrlimit(libc::RLIMIT_NOFILE, &new);
    }
    Fault { placeholders, old }
}
impl Drop for Fault {
    fn drop(&mut self) {
        unsafe {
            libc::setrlimit(libc::RLIMIT_NOFILE, &self.old);
            for fd in &self.placeholders {
                libc::close(*fd);
            }
        }
    }
}

struct FWorld {
    pt: Pt,
    sp: SockPair,
    refs: std::collections::BTreeMap<u64, u64>,
    handles: Vec<(u64, u64, bool, bool)>, // fh, nodeid, dir, live
    fired: u64,
    requests: u64,
}

impl FWorld {
    fn call_plain(&mut self, req: &crate::reqgen::Req) -> Rep {
        let bytes = req.encode();
        let d = serve_fusedev_on(&self.pt.srv, &bytes, 16 + req.reply_room() + 256, true, &self.sp);
        let mut r = Rep { error: i32::MIN, body: vec![], nreplies: d.replies.len() };
        if let Some(m) = d.replies.first() {
            if let Some(p) = crate::codec::parse_reply(m) {
                r.error = p.error;
                r.body = p.body;
            }
        }
        r
    }

    /// serve `req` with the (n+1)-th descriptor allocation failing, for n = 0, 1, ... until it is no longer the limit that decides
    fn call_faulted(&mut self, out: &mut Outcome, req: &crate::reqgen::Req, mut on_reply: impl FnMut(&mut FWorld, &mut Outcome, &Rep)) {
        self.requests += 1;
        for n in 0..10 {
            let rep = {
                let _w = fault_window(n);
                self.call_plain(req)
            };
            if rep.nreplies != 1 && req.op != "FORGET" {
                out.fail(format!("fault/{}/no-reply", req.op), format!("with descriptor allocation #{} failing the request got {} replies", n + 1, rep.nreplies));
                return;
            }
            let limited = rep.error == -libc::EMFILE || rep.error == -libc::ENFILE;
            if limited {
                self.fired += 1;
            }
            on_reply(self, out, &rep);
            if !limited {
                return;
            }
        }
    }
}

pub fn run_fault(cs: &FCase) -> Outcome {
    let mut out = Outcome::default();
    fresh_dirs(&["/export", "/shadow"]);
    materialise("/export", &cs.tree);
    let Some((fresh_fds, fresh_tables)) = baseline_of(&cs.cfg) else {
        out.fail("pt/baseline", "cannot start a fresh server");
        return out;
    };
    let sp = SockPair::new();
    let fd0 = sys::fd_count();
    let Some(pt) = Pt::new(&mut out, &cs.cfg, "/export", "/shadow") else { return out };
    let mut w = FWorld { pt, sp, refs: Default::default(), handles: vec![], fired: 0, requests: 0 };
    let mut reinit = false;
    let nm = |i: u8| NAMEU[i as usize % NAMEU.len()].as_bytes();
    for op in &cs.ops {
        let ids: Vec<u64> = std::iter::once(1).chain(w.refs.keys().copied()).collect();
        let nsel = |s: u16| ids[pick_idx(s, ids.len())];
        let take_entry = |w: &mut FWorld, _o: &mut Outcome, rep: &Rep, at: usize| {
            if rep.error == 0 && rep.body.len() >= at + ssize("fuse_entry_out") {
                let id = get(&rep.body, at, "fuse_entry_out", "nodeid");
                if id != 0 {
                    *w.refs.entry(id).or_insert(0) += 1;
                }
            }
        };
        match op {
            FOp::Lookup(p, n) => {
                let r = mkreq("LOOKUP", nsel(*p), 0, 0, &[], &[nm(*n)], &[]);
                w.call_faulted(&mut out, &r, |w, o, rep| take_entry(w, o, rep, 0));
            }
            FOp::Mkdir(p, n) => {
                let r = mkreq("MKDIR", nsel(*p), 0, 0, &[("mode", 0o777)], &[nm(*n)], &[]);
                w.call_faulted(&mut out, &r, |w, o, rep| take_entry(w, o, rep, 0));
            }
            FOp::Create(p, n) => {
                let r = mkreq("CREATE", nsel(*p), 0, 0, &[("flags", libc::O_RDWR as u64), ("mode", 0o644)], &[nm(*n)], &[]);
                let noopen = w.pt.no_open;
                w.call_faulted(&mut out, &r, |w, o, rep| {
                    take_entry(w, o, rep, 0);
                    if rep.error == 0 && !noopen && rep.body.len() >= ssize("fuse_entry_out") + ssize("fuse_open_out") {
                        let id = get(&rep.body, 0, "fuse_entry_out", "nodeid");
                        let fh = get(&rep.body, ssize("fuse_entry_out"), "fuse_open_out", "fh");
                        w.handles.push((fh, id, false, true));
                    }
                });
            }
            FOp::Open(n) | FOp::Opendir(n) => {
                let dir = matches!(op, FOp::Opendir(_));
                let id = nsel(*n);
                let r = mkreq(if dir { "OPENDIR" } else { "OPEN" }, id, 0, 0, &[("flags", if dir { 0 } else { libc::O_RDWR as u64 })], &[], &[]);
                w.call_faulted(&mut out, &r, |w, o, rep| {
                    if rep.error == 0 && rep.body.len() >= ssize("fuse_open_out") {
                        let fh = get(&rep.body, 0, "fuse_open_out", "fh");
                        if w.handles.iter().any(|h| h.3 && h.0 == fh) {
                            o.fail("handle/fault/duplicate", format!("handle {} handed out twice", fh));
                        }
                        w.handles.push((fh, id, dir, true));
                        // (d) a success under a fault must come with a working resource
                        let probe = if dir {
                            mkreq("READDIR", id, 0, 0, &[("fh", fh), ("offset", 0), ("size", 4096)], &[], &[])
                        } else {
                            mkreq("GETATTR", id, 0, 0, &[("getattr_flags", c("FUSE_GETATTR_FH")), ("fh", fh)], &[], &[])
                        };
                        let p = w.call_plain(&probe);
                        if p.error == -libc::EBADF {
                            o.fail("fault/open/success-without-handle", "open succeeded under a descriptor fault but its handle does not work");
                        }
                    }
                });
            }
            FOp::Readdir(h, plus) => {
                let live: Vec<(u64, u64)> = w.handles.iter().filter(|x| x.3 && x.2).map(|x| (x.0, x.1)).collect();
                let (fh, id) = if w.pt.no_opendir {
                    (0, nsel(*h))
                } else if live.is_empty() {
                    continue;
                } else {
                    live[pick_idx(*h, live.len())]
                };
                let r = mkreq(if *plus { "READDIRPLUS" } else { "READDIR" }, id, 0, 0, &[("fh", fh), ("offset", 0), ("size", 2048)], &[], &[]);
                let plus = *plus;
                w.call_faulted(&mut out, &r, |w, _o, rep| {
                    if plus && rep.error == 0 {
                        let esz = ssize("fuse_entry_out");
                        let dsz = ssize("fuse_dirent");
                        let b = &rep.body;
                        let mut pos = 0;
                        while pos + esz + dsz <= b.len() {
                            let nid = get(b, pos, "fuse_entry_out", "nodeid");
                            if nid != 0 {
                                *w.refs.entry(nid).or_insert(0) += 1;
                            }
                            let namelen = get(b, pos + esz, "fuse_dirent", "namelen") as usize;
                            pos += esz + ((dsz + namelen + 7) & !7);
                        }
                    }
                });
            }
            FOp::Getattr(n) => {
                let r = mkreq("GETATTR", nsel(*n), 0, 0, &[], &[], &[]);
                w.call_faulted(&mut out, &r, |_, _, _| {});
            }
            FOp::Truncate(n) => {
                let r = mkreq("SETATTR", nsel(*n), 0, 0, &[("valid", c("FATTR_SIZE")), ("size", 10)], &[], &[]);
                w.call_faulted(&mut out, &r, |_, _, _| {});
            }
            FOp::Release(h) => {
                let live: Vec<usize> = w.handles.iter().enumerate().filter(|(_, x)| x.3).map(|(i, _)| i).collect();
                if live.is_empty() {
                    continue;
                }
                let i = live[pick_idx(*h, live.len())];
                let (fh, id, dir, _) = w.handles[i];
                let r = mkreq(if dir { "RELEASEDIR" } else { "RELEASE" }, id, 0, 0, &[("fh", fh)], &[], &[]);
                w.call_faulted(&mut out, &r, |w, o, rep| {
                    if rep.error == 0 {
                        w.handles[i].3 = false;
                    } else if rep.error != -libc::EMFILE {
                        o.fail("fault/release/failed", format!("release answered {}", rep.error));
                    }
                });
                w.handles[i].3 = false;
            }
            FOp::Forget(n) => {
                let id = nsel(*n);
                if id == 1 {
                    continue;
                }
                let k = w.refs.remove(&id).unwrap_or(0);
                let r = mkreq("FORGET", id, 0, 0, &[("nlookup", k)], &[], &[]);
                let _ = w.call_plain(&r);
            }
            FOp::Reinit => {
                reinit = true;
                let _ = w.call_plain(&mkreq("DESTROY", 0, 0, 0, &[], &[], &[]));
                w.refs.clear();
                for h in w.handles.iter_mut() {
                    h.3 = false;
                }
                let req = w.pt.init_req();
                w.call_faulted(&mut out, &req, |_, _, _| {});
                // make sure the server is initialised again
                let rep = w.call_plain(&req);
                if rep.error != 0 {
                    out.fail("fault/reinit/failed", format!("INIT answered {}", rep.error));
                }
            }
        }
        if !out.fails.is_empty() {
            break;
        }
    }
    if out.fails.is_empty() {
        // let go of everything
        let hs: Vec<(u64, u64, bool, bool)> = w.handles.clone();
        for (fh, id, dir, live) in hs {
            if live {
                let _ = w.call_plain(&mkreq(if dir { "RELEASEDIR" } else { "RELEASE" }, id, 0, 0, &[("fh", fh)], &[], &[]));
            }
        }
        let refs: Vec<(u64, u64)> = w.refs.iter().map(|(k, v)| (*k, *v)).collect();
        for (id, k) in refs {
            let _ = w.call_plain(&mkreq("FORGET", id, 0, 0, &[("nlookup", k)], &[], &[]));
        }
        let tables = w.pt.fs.verif_table_sizes();
        let held = sys::fd_count() - fd0;
        if tables != fresh_tables {
            out.fail(
                if tables.0 != fresh_tables.0 { "leak/fault/inode-objects" } else if tables.1 != fresh_tables.1 { "leak/fault/handles" } else if tables.2 != fresh_tables.2 { "leak/fault/dir-position-records" } else { "leak/fault/mount-fds" },
                format!("after descriptor faults and releasing everything the server holds {:?}, a fresh server holds {:?}", tables, fresh_tables),
            );
        }
        if held != fresh_fds {
            out.fail(if reinit { "leak/fault/fds-after-reinit" } else { "leak/fault/fds" }, format!("{} descriptors open after faults, a fresh server needs {}", held, fresh_fds));
        }
    }
    out.nontrivial = w.fired > 0;
    out.class(format!("fault:fired={}", if w.fired == 0 { "0" } else if w.fired < 5 { "1-4" } else { ">=5" }));
    out
}

pub struct C15;

impl Prop for C15 {
    fn id(&self) -> &'static str {
        "C15"
    }
    fn meta(&self) -> Meta {
        Meta {
            level: "fault_enumeration",
            rule: "(history) C05 op histories with extra weight on open/opendir/listing/release/forget, DESTROY+INIT cycles and deliberately bad handle use (wrong inode, after release) x {no_open} x {no_opendir} x {inode_file_handles}; at the end the client releases every handle and forgets every reference: open descriptors and the sizes of the inode/handle/cookie/mount-fd tables must equal those of a freshly started server over the same directories. (fault) histories of lookup/create/mkdir/open/opendir/readdir(plus)/getattr/truncate/release/forget/re-INIT where EVERY request is served with the descriptor table plugged and RLIMIT_NOFILE allowing n more descriptors, for n = 0,1,2,... until the limit no longer decides the outcome; the model follows the actual replies; afterwards the same release-everything comparison, plus: no panic, a success under a fault comes with a working handle; non-trivial = (history) an open/release pair happened, (fault) an injected EMFILE actually fired; distinct = distinct serialized case",
            assumptions: vec![
                "single-threaded worker; /proc/self/fd of the worker is the descriptor count; the model's own descriptors are released before counting".into(),
                "table sizes come from the read-only cfg-guarded hook PassthroughFs::verif_table_sizes".into(),
            ],
            ..Meta::default()
        }
    }
    fn worker(&self, w: &WorkerCtx) -> WorkerResult {
        sys::enter();
        let n = w.share(w.tier.pick(16_000, 500_000));
        let mut r = drive(w, "C15", "history", n, strategy(), run);
        let m = w.share(w.tier.pick(3_000, 100_000));
        r.merge(drive(w, "C15", "fault", m, fstrategy(), run_fault));
        r
    }
    fn replay(&self, kind: &str, case: &Value) -> Vec<Fail> {
        sys::enter();
        if kind == "fault" {
            run_fault(&serde_json::from_value(case.clone()).expect("case")).fails
        } else {
            run(&serde_json::from_value(case.clone()).expect("case")).fails
        }
    }
}
