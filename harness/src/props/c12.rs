//! C12 — INIT negotiation enables exactly the features both sides asked for.
use crate::codec::{self, c, get, ssize};
use crate::engine::*;
use crate::mockfs::{MockFs, MockRes};
use crate::props::c07::tree_spec;
use crate::reqgen::val_of_width;
use crate::transport;
use crate::vfsdrv::*;
use fuse_backend_rs::abi::fuse_abi::FsOptions;
use fuse_backend_rs::api::server::Server;
use fuse_backend_rs::api::VfsOptions;
use proptest::prelude::*;
use serde::{Deserialize, Serialize};
use serde_json::Value;
use std::sync::Arc;

#[derive(Clone, Debug, Serialize, Deserialize)]
pub struct InitReq {
    pub major: u32,
    pub minor: u32,
    pub flags: u32,
    pub flags2: u32,
    pub max_readahead: u32,
    /// bytes of the extended part of fuse_init_in actually sent (0 = none, 48 = full, else truncated)
    pub ext_bytes: u8,
}

impl InitReq {
    pub fn encode(&self, unique: u64) -> Vec<u8> {
        let mut body = codec::enc(
            "fuse_init_in",
            &[("major", self.major as u64), ("minor", self.minor as u64), ("max_readahead", self.max_readahead as u64), ("flags", self.flags as u64), ("flags2", self.flags2 as u64)],
        );
        body.truncate(16 + (self.ext_bytes as usize).min(48));
        codec::request(&codec::Hdr { opcode: codec::op("INIT"), unique, nodeid: 0, uid: 0, gid: 0, pid: 0 }, &body)
    }
    /// the capability set the client announced, as the protocol defines it
    pub fn client_bits(&self) -> u64 {
        let ext = c("FUSE_INIT_EXT");
        let mut v = self.flags as u64;
        if v & ext != 0 {
            if self.ext_bytes as usize >= 48 {
                v |= (self.flags2 as u64) << 32;
            } else {
                // marker without payload: legacy 32-bit capabilities
                v &= !ext;
            }
        }
        v
    }
}

#[derive(Clone, Debug, Default)]
pub struct InitRep {
    pub error: i32,
    pub len: usize,
    pub major: u32,
    pub minor: u32,
    pub flags: u32,
    pub flags2: u32,
    pub max_write: u32,
    pub max_pages: u16,
    pub max_readahead: u32,
}
impl InitRep {
    /// decode the reply the way a Linux client does: flags2 counts only with the marker
    pub fn eff(&self) -> u64 {
        let mut v = self.flags as u64;
        if v & c("FUSE_INIT_EXT") != 0 {
            v |= (self.flags2 as u64) << 32;
        }
        v
    }
}

pub fn parse_init(rep: &[u8]) -> Option<InitRep> {
    let r = codec::parse_reply(rep)?;
    let mut o = InitRep { error: r.error, len: r.body.len(), ..Default::default() };
    let mut full = r.body.clone();
    full.resize(ssize("fuse_init_out"), 0);
    o.major = get(&full, 0, "fuse_init_out", "major") as u32;
    o.minor = get(&full, 0, "fuse_init_out", "minor") as u32;
    o.max_readahead = get(&full, 0, "fuse_init_out", "max_readahead") as u32;
    o.flags = get(&full, 0, "fuse_init_out", "flags") as u32;
    o.max_write = get(&full, 0, "fuse_init_out", "max_write") as u32;
    o.max_pages = get(&full, 0, "fuse_init_out", "max_pages") as u16;
    o.flags2 = get(&full, 0, "fuse_init_out", "flags2") as u32;
    Some(o)
}

#[derive(Clone, Debug, Serialize, Deserialize)]
pub struct SrvCase {
    pub req: InitReq,
    pub want: u64,
    pub fs_err: Option<i32>,
}

fn flags_strategy() -> BoxedStrategy<(u32, u32, u8)> {
    let ext = 1u32 << 30;
    (any::<u32>(), any::<u32>(), prop_oneof![3 => Just(48u8), 2 => Just(0u8), 1 => 1u8..48], 0u8..4)
        .prop_map(move |(f, f2, eb, mode)| match mode {
            0 => (f & !ext, f2, eb),
            1 | 2 => (f | ext, f2, eb),
            _ => (f, f2, eb),
        })
        .boxed()
}

pub fn init_req_strategy() -> BoxedStrategy<InitReq> {
    (
        prop_oneof![8 => Just(7u32), 1 => 0u32..7, 1 => prop_oneof![Just(8u32), Just(9), Just(1 << 31), Just(u32::MAX)]],
        prop_oneof![6 => 0u32..41, 1 => any::<u32>(), 2 => Just(38u32)],
        flags_strategy(),
        val_of_width(4),
    )
        .prop_map(|(major, minor, (flags, flags2, ext_bytes), ra)| InitReq { major, minor, flags, flags2, max_readahead: ra as u32, ext_bytes })
        .boxed()
}

pub fn srv_strategy() -> BoxedStrategy<SrvCase> {
    (init_req_strategy(), prop_oneof![3 => any::<u64>(), 1 => Just(u64::MAX), 1 => Just(0u64), 2 => any::<u64>().prop_map(|v| v | (1 << 30))], prop_oneof![9 => Just(None), 1 => (1i32..134).prop_map(Some)])
        .prop_map(|(req, want, fs_err)| SrvCase { req, want, fs_err })
        .boxed()
}

const MAX_BUFFER: u64 = 1 << 20;
const SESSION_BUF: u64 = 256 * 4096 + 0x1000;

pub fn check_init_reply(out: &mut Outcome, tag: &str, req: &InitReq, rep: &InitRep, capable_seen: Option<u64>, want: Option<u64>) {
    let ext = c("FUSE_INIT_EXT");
    if req.major < 7 {
        if rep.error == 0 {
            out.fail(format!("init/{}/old-major-accepted", tag), format!("major {} answered without error", req.major));
        }
        if capable_seen.is_some() {
            out.fail(format!("init/{}/old-major-reached-fs", tag), "fs.init called for an unsupported major version");
        }
        return;
    }
    if req.major > 7 {
        if rep.error != 0 || rep.major != 7 {
            out.fail(format!("init/{}/new-major", tag), format!("major {} must be answered with a bare 7.x reply, got error {} major {}", req.major, rep.error, rep.major));
        }
        if rep.flags != 0 || rep.flags2 != 0 || rep.max_write != 0 {
            out.fail(format!("init/{}/new-major-not-bare", tag), "version-downgrade reply carries negotiation results");
        }
        if capable_seen.is_some() {
            out.fail(format!("init/{}/new-major-reached-fs", tag), "fs.init called before the version was agreed");
        }
        return;
    }
    if rep.error != 0 {
        return;
    }
    // layout by the client's minor
    let want_len = if req.minor < 5 {
        8
    } else if req.minor < 23 {
        24
    } else {
        ssize("fuse_init_out")
    };
    if rep.len != want_len {
        out.fail(format!("init/{}/reply-size", tag), format!("minor {} needs a {}-byte init reply, got {}", req.minor, want_len, rep.len));
    }
    if rep.major != 7 {
        out.fail(format!("init/{}/major", tag), format!("reply major {}", rep.major));
    }
    if want_len < 24 {
        return;
    }
    let client = req.client_bits();
    let eff = rep.eff();
    if let Some(cap) = capable_seen {
        if cap & !client != 0 {
            out.fail(format!("init/{}/capable-invented", tag), format!("fs.init saw capabilities {:#x} the client did not announce ({:#x})", cap & !client, client));
        }
        let known = FsOptions::all().bits();
        if cap != client & known {
            out.fail(format!("init/{}/capable-lost", tag), format!("client announced {:#x}, fs.init saw {:#x}", client & known, cap));
        }
    }
    if let (Some(cap), Some(w)) = (capable_seen, want) {
        // only the part of the reply the client's layout can carry
        let mask = if want_len >= 64 { u64::MAX } else { 0xffff_ffff };
        let expect = cap & w & !ext & mask;
        let got = eff & !ext & mask;
        if got != expect {
            let missing = expect & !got;
            let extra = got & !expect;
            if missing >> 32 != 0 && rep.flags as u64 & ext == 0 && (rep.flags2 as u64) << 32 & missing == missing & !0xffff_ffffu64 {
                out.fail(
                    format!("init/{}/extended-bits-without-marker", tag),
                    format!("enabled bits {:#x} are sent in flags2 without FUSE_INIT_EXT in flags; a client ignores them (capable {:#x}, want {:#x})", missing, cap, w),
                );
            } else {
                out.fail(
                    format!("init/{}/enabled-set", tag),
                    format!("client decodes enabled {:#x}, expected capable&want = {:#x} (missing {:#x}, extra {:#x})", got, expect, missing, extra),
                );
            }
        }
    }
    if eff & !client & !ext != 0 {
        out.fail(format!("init/{}/enabled-not-offered", tag), format!("reply enables {:#x} which the client never offered", eff & !client & !ext));
    }
    // write-size limits
    let mw = rep.max_write as u64;
    if mw > MAX_BUFFER || 16 + mw > SESSION_BUF || mw == 0 {
        out.fail(format!("init/{}/max-write", tag), format!("max_write {} does not fit the transport buffers", mw));
    }
    if want_len >= 64 && eff & c("FUSE_MAX_PAGES") != 0 && (rep.max_pages as u64) * 4096 < mw {
        out.fail(format!("init/{}/max-pages", tag), format!("max_pages {} inconsistent with max_write {}", rep.max_pages, mw));
    }
}

pub fn run_srv(cs: &SrvCase) -> Outcome {
    let mut out = Outcome::default();
    let res = match cs.fs_err {
        Some(e) => MockRes::Err(crate::mockfs::ErrSpec::Os(e)),
        None => MockRes::Init(cs.want),
    };
    let fs = Arc::new(MockFs::new(res));
    let srv = Server::new(fs.clone());
    let d = transport::serve_fusedev(&srv, &cs.req.encode(9), 256, false);
    out.fails.extend(d.fails);
    if d.replies.len() != 1 {
        out.fail("init/server/reply-count", format!("{} replies", d.replies.len()));
        return out;
    }
    let rep = parse_init(&d.replies[0]).unwrap_or_default();
    let calls = fs.calls();
    let capable_seen = calls.iter().find(|v| v["m"] == "init").and_then(|v| v["a"]["capable"].as_u64());
    if let Some(e) = cs.fs_err {
        if cs.req.major == 7 && rep.error != -e {
            out.fail("init/server/fs-error", format!("fs.init failed with {} but the reply says {}", e, rep.error));
        }
    }
    check_init_reply(&mut out, "server", &cs.req, &rep, capable_seen, if cs.fs_err.is_none() { Some(cs.want) } else { None });
    let client = cs.req.client_bits();
    out.nontrivial = cs.req.major == 7 && client & cs.want != 0 && cs.fs_err.is_none();
    out.class(format!("major:{}", if cs.req.major < 7 { "<7" } else if cs.req.major > 7 { ">7" } else { "7" }));
    out.class(format!("minor:{}", if cs.req.minor < 5 { "<5" } else if cs.req.minor < 23 { "5..22" } else { ">=23" }));
    if cs.req.flags & (1 << 30) != 0 {
        out.class(match cs.req.ext_bytes {
            48 => "ext:payload-present",
            0 => "ext:payload-missing",
            _ => "ext:payload-truncated",
        });
    }
    if cs.want >> 32 != 0 {
        out.class("want:high-bits");
    }
    out
}

// ---------------------------------------------------------------- VFS layer

#[derive(Clone, Debug, Serialize, Deserialize)]
pub struct VfsCase {
    pub no_open: bool,
    pub no_opendir: bool,
    pub no_writeback: bool,
    pub killpriv_v2: bool,
    pub req: InitReq,
    pub second: Option<InitReq>,
    pub destroy_between: bool,
    pub tree: TreeSpec,
}

pub fn vfs_strategy() -> BoxedStrategy<VfsCase> {
    let good = init_req_strategy().prop_map(|mut r| {
        r.major = 7;
        r.minor = 23 + r.minor % 20;
        r
    });
    (any::<bool>(), any::<bool>(), any::<bool>(), any::<bool>(), good.clone(), proptest::option::of(good), any::<bool>(), tree_spec())
        .prop_map(|(no_open, no_opendir, no_writeback, killpriv_v2, req, second, destroy_between, tree)| VfsCase { no_open, no_opendir, no_writeback, killpriv_v2, req, second, destroy_between, tree })
        .boxed()
}

pub fn run_vfs(cs: &VfsCase) -> Outcome {
    let mut out = Outcome::default();
    let mut o = VfsOptions::default();
    o.no_open = cs.no_open;
    o.no_opendir = cs.no_opendir;
    o.no_writeback = cs.no_writeback;
    o.killpriv_v2 = cs.killpriv_v2;
    let w = VfsWorld::new(o);
    let fs = TreeFs::new(0, &cs.tree, w.log.clone());
    if w.vfs.mount(Box::new(fs.clone()), "/m").is_err() {
        out.fail("init/vfs/mount", "mount failed");
        return out;
    }
    w.take_log();
    let send = |r: &InitReq| -> InitRep {
        let d = transport::serve_fusedev(&w.srv, &r.encode(3), 256, false);
        d.replies.first().and_then(|m| parse_init(m)).unwrap_or(InitRep { error: i32::MIN, ..Default::default() })
    };
    let rep = send(&cs.req);
    let log = w.take_log();
    if rep.error != 0 {
        out.fail("init/vfs/first-init-failed", format!("error {}", rep.error));
        return out;
    }
    let client = cs.req.client_bits();
    let eff = rep.eff();
    out.nontrivial = eff != 0;
    // enabled bits were offered by the client
    let ext = c("FUSE_INIT_EXT");
    if eff & !client & !ext != 0 {
        out.fail("init/vfs/enabled-not-offered", format!("enabled {:#x} not offered", eff & !client & !ext));
    }
    // configuration switches: a feature is advertised only if configured
    let chk = |out: &mut Outcome, name: &str, bit: u64, configured: bool| {
        if eff & bit != 0 && !configured {
            out.fail(format!("init/vfs/{}-enabled-unconfigured", name), format!("{} enabled although switched off in the VFS options", name));
        }
        if eff & bit != 0 && client & bit == 0 {
            out.fail(format!("init/vfs/{}-enabled-unoffered", name), format!("{} enabled although the client did not offer it", name));
        }
    };
    chk(&mut out, "no-open", c("FUSE_NO_OPEN_SUPPORT"), cs.no_open);
    chk(&mut out, "no-opendir", c("FUSE_NO_OPENDIR_SUPPORT"), cs.no_opendir);
    chk(&mut out, "writeback", c("FUSE_WRITEBACK_CACHE"), !cs.no_writeback);
    chk(&mut out, "killpriv-v2", c("FUSE_HANDLE_KILLPRIV_V2"), cs.killpriv_v2);
    if eff & c("FUSE_NO_OPEN_SUPPORT") != 0 && eff & c("FUSE_ATOMIC_O_TRUNC") != 0 {
        out.fail("init/vfs/no-open-with-atomic-trunc", "zero-message open enabled together with ATOMIC_O_TRUNC");
    }
    // every backend was initialised with exactly what the client will see (high bits included only with the marker)
    for (_, v) in log.iter().filter(|(_, v)| v["m"] == "init") {
        let b = v["a"]["capable"].as_u64().unwrap_or(0);
        if b & !ext != eff & !ext {
            let lost = b & !eff & !ext;
            if lost >> 32 != 0 && lost & 0xffff_ffff == 0 && rep.flags as u64 & ext == 0 {
                out.fail("init/vfs/extended-bits-without-marker", format!("backend was told {:#x} is enabled but the reply carries it in flags2 without FUSE_INIT_EXT", lost));
            } else {
                out.fail("init/vfs/backend-vs-client", format!("backend initialised with {:#x}, client decodes {:#x}", b & !ext, eff & !ext));
            }
        }
    }
    // behaviour: OPEN / OPENDIR answered ENOSYS iff zero-message open(dir) is in effect
    let l = w.call(&mkreq("LOOKUP", 1, 0, 0, &[], &[b"m"], &[])).0;
    if let Some(e) = l.entry(0) {
        let o = w.call(&mkreq("OPEN", e.nodeid, 0, 0, &[("flags", 0)], &[], &[])).0;
        let od = w.call(&mkreq("OPENDIR", e.nodeid, 0, 0, &[("flags", 0)], &[], &[])).0;
        let noopen = eff & c("FUSE_NO_OPEN_SUPPORT") != 0;
        let noopendir = eff & c("FUSE_NO_OPENDIR_SUPPORT") != 0;
        if (o.error == -libc::ENOSYS) != noopen {
            out.fail("init/vfs/open-behaviour", format!("OPEN answered {} but zero-message open negotiated = {}", o.error, noopen));
        }
        if (od.error == -libc::ENOSYS) != noopendir {
            out.fail("init/vfs/opendir-behaviour", format!("OPENDIR answered {} but zero-message opendir negotiated = {}", od.error, noopendir));
        }
        out.class(format!("vfs:no_open={}", noopen));
    }
    // second INIT
    if let Some(r2) = &cs.second {
        if cs.destroy_between {
            out.class("vfs:reinit-after-destroy");
            let _ = w.call(&mkreq("DESTROY", 0, 0, 0, &[], &[], &[]));
            let rep2 = send(r2);
            if rep2.error != 0 {
                out.fail("init/vfs/reinit-after-destroy-refused", format!("INIT after DESTROY answered {}", rep2.error));
            } else {
                let eff2 = rep2.eff();
                let client2 = r2.client_bits();
                if eff2 & !client2 & !ext != 0 {
                    out.fail("init/vfs/reinit-enabled-not-offered", format!("after re-INIT {:#x} is enabled but the new client did not offer it", eff2 & !client2 & !ext));
                }
                if let Some(e) = l.entry(0) {
                    let o = w.call(&mkreq("OPEN", e.nodeid, 0, 0, &[("flags", 0)], &[], &[])).0;
                    let noopen2 = eff2 & c("FUSE_NO_OPEN_SUPPORT") != 0;
                    if (o.error == -libc::ENOSYS) != noopen2 {
                        out.fail("init/vfs/reinit-open-behaviour", format!("after re-INIT OPEN answered {} but zero-message open negotiated = {}", o.error, noopen2));
                    }
                }
            }
        } else {
            out.class("vfs:second-init");
            let rep2 = send(r2);
            if rep2.error == 0 {
                out.fail("init/vfs/second-init-accepted", "the VFS accepted a second INIT");
            }
        }
    }
    out
}


// ---------------------------------------------------------------- passthrough / overlay layer

#[derive(Clone, Debug, Serialize, Deserialize)]
pub struct Sess {
    /// capability bits the client offers (restricted to the five behaviour bits plus noise)
    pub client: u64,
    /// whether the extended marker + payload are sent (bits >= 32 count only then)
    pub ext: bool,
}

#[derive(Clone, Debug, Serialize, Deserialize)]
pub struct LayerCase {
    pub overlay: bool,
    pub writeback: bool,
    pub no_open: bool,
    pub no_opendir: bool,
    pub killpriv_v2: bool,
    pub dax: bool,
    /// passthrough cache policy: 0 Never, 1 Metadata, 2 Auto, 3 Always (no_open needs Always,
    /// writeback conflicts with Never: PassthroughFs::new() documents both resets)
    pub cache: u8,
    /// INIT, probes, then for every further element DESTROY + INIT + probes
    pub sessions: Vec<Sess>,
}

fn layer_strategy() -> BoxedStrategy<LayerCase> {
    let bits = [c("FUSE_NO_OPEN_SUPPORT"), c("FUSE_NO_OPENDIR_SUPPORT"), c("FUSE_WRITEBACK_CACHE"), c("FUSE_HANDLE_KILLPRIV_V2"), c("FUSE_HAS_INODE_DAX")];
    let sess = (any::<u8>(), any::<u64>(), 0u8..4, prop_oneof![4 => Just(true), 1 => Just(false)]).prop_map(move |(sel, noise, mode, ext)| {
        let mut client = match mode {
            0 => 0,
            1 => noise,
            _ => noise & 0xffff,
        };
        for (i, b) in bits.iter().enumerate() {
            client &= !b;
            if sel >> i & 1 == 1 {
                client |= b;
            }
        }
        Sess { client: client & !c("FUSE_INIT_EXT") & !(1 << 63), ext }
    });
    (any::<bool>(), any::<bool>(), any::<bool>(), any::<bool>(), any::<bool>(), any::<bool>(), prop_oneof![3 => Just(3u8), 1 => 0u8..3], proptest::collection::vec(sess, 1..4))
        .prop_map(|(overlay, writeback, no_open, no_opendir, killpriv_v2, dax, cache, sessions)| LayerCase { overlay, writeback, no_open, no_opendir, killpriv_v2, dax, cache, sessions })
        .boxed()
}

const LROOT: &str = "/c12";
const CONTENT: &[u8] = b"0123456789";

fn run_layers(cs: &LayerCase) -> Outcome {
    use crate::jail as sys;
    use fuse_backend_rs::overlayfs::{config::Config as OvConfig, OverlayFs};
    use fuse_backend_rs::passthrough::{Config as PtConfig, PassthroughFs};
    let mut out = Outcome::default();
    let export = format!("{}/export", LROOT);
    crate::ptdrv::fresh_dirs(&[&export, &format!("{}/upper", LROOT), &format!("{}/work", LROOT), &format!("{}/mnt", LROOT)]);
    let host_file = format!("{}/f", export);
    std::fs::create_dir_all(format!("{}/d", export)).unwrap();
    let reset_file = |mode: u32| {
        std::fs::write(&host_file, CONTENT).unwrap();
        let _ = sys::chmod_path(host_file.as_bytes(), mode);
    };
    reset_file(0o644);
    let mut pc = PtConfig::default();
    pc.root_dir = export.clone();
    pc.do_import = true;
    pc.xattr = true;
    if !cs.overlay {
        pc.writeback = cs.writeback;
        pc.no_open = cs.no_open;
        pc.no_opendir = cs.no_opendir;
        pc.killpriv_v2 = cs.killpriv_v2;
        pc.dax_file_size = if cs.dax { Some(0) } else { None };
        pc.cache_policy = match cs.cache % 4 {
            0 => fuse_backend_rs::passthrough::CachePolicy::Never,
            1 => fuse_backend_rs::passthrough::CachePolicy::Metadata,
            2 => fuse_backend_rs::passthrough::CachePolicy::Auto,
            _ => fuse_backend_rs::passthrough::CachePolicy::Always,
        };
    }
    // the configuration in effect after the documented resets of PassthroughFs::new()
    let cfg_no_open = cs.no_open && (cs.overlay || cs.cache % 4 == 3);
    let cfg_writeback = cs.writeback && (cs.overlay || cs.cache % 4 != 0);
    // one closure type for both stacks
    enum Stack {
        Pt(Server<Arc<PassthroughFs<()>>>),
        Ov(Server<Arc<OverlayFs>>),
    }
    let stack = if cs.overlay {
        type BoxedLayer = Box<dyn fuse_backend_rs::api::filesystem::Layer<Inode = u64, Handle = u64> + Send + Sync>;
        let mk = |root: &str| -> Option<Arc<BoxedLayer>> {
            let mut c2 = PtConfig::default();
            c2.root_dir = root.to_string();
            c2.do_import = true;
            c2.xattr = true;
            let fs = Box::new(PassthroughFs::<()>::new(c2).ok()?);
            fs.import().ok()?;
            Some(Arc::new(fs as BoxedLayer))
        };
        // the file lives in the upper layer so that writes need no copy-up
        let upper = mk(&export);
        let lower = mk(&format!("{}/upper", LROOT));
        let (Some(upper), Some(lower)) = (upper, lower) else {
            out.fail("harness/c12/layer", "cannot build passthrough layers");
            return out;
        };
        let mut oc = OvConfig::default();
        oc.work = format!("{}/work", LROOT);
        oc.mountpoint = format!("{}/mnt", LROOT);
        oc.do_import = true;
        oc.writeback = cs.writeback;
        oc.no_open = cs.no_open;
        oc.no_opendir = cs.no_opendir;
        oc.killpriv_v2 = cs.killpriv_v2;
        oc.perfile_dax = cs.dax;
        match OverlayFs::new(Some(upper), vec![lower], oc) {
            Ok(fs) => Stack::Ov(Server::new(Arc::new(fs))),
            Err(e) => {
                out.fail("harness/c12/overlay", format!("OverlayFs::new: {}", e));
                return out;
            }
        }
    } else {
        match PassthroughFs::<()>::new(pc) {
            Ok(fs) => Stack::Pt(Server::new(Arc::new(fs))),
            Err(e) => {
                out.fail("harness/c12/passthrough", format!("PassthroughFs::new: {}", e));
                return out;
            }
        }
    };
    let send = |r: &crate::reqgen::Req| -> Rep {
        match &stack {
            Stack::Pt(s) => call(s, r),
            Stack::Ov(s) => call(s, r),
        }
    };
    let tag = if cs.overlay { "overlay" } else { "passthrough" };
    let ext = c("FUSE_INIT_EXT");
    let mut seen_on = [false; 5];
    let mut later_off = false;
    for (si, s) in cs.sessions.iter().enumerate() {
        if si > 0 {
            let d = send(&mkreq("DESTROY", 0, 0, 0, &[], &[], &[]));
            if d.error != 0 {
                out.fail(format!("init/{}/destroy", tag), format!("DESTROY answered {}", d.error));
                return out;
            }
        }
        let offered = if s.ext { s.client } else { s.client & 0xffff_ffff };
        let rep = send(&mkreq(
            "INIT",
            0,
            0,
            0,
            &[("major", 7), ("minor", 38), ("max_readahead", 65536), ("flags", (s.client & 0xffff_ffff) | if s.ext { ext } else { 0 }), ("flags2", if s.ext { s.client >> 32 } else { 0 })],
            &[],
            &[],
        ));
        if rep.error != 0 || rep.body.len() < 24 {
            out.fail(format!("init/{}/failed", tag), format!("session {}: INIT answered {}", si, rep.error));
            return out;
        }
        let mut full = rep.body.clone();
        full.resize(ssize("fuse_init_out"), 0);
        let f1 = get(&full, 0, "fuse_init_out", "flags");
        let f2 = get(&full, 0, "fuse_init_out", "flags2");
        let eff = f1 | if f1 & ext != 0 { f2 << 32 } else { 0 };
        if eff & !offered & !ext != 0 {
            out.fail(format!("init/{}/enabled-not-offered", tag), format!("session {}: reply enables {:#x} which this client never offered", si, eff & !offered & !ext));
        }
        // what the two sides agreed on, feature by feature
        let feats: [(&str, u64, bool); 5] = [
            ("no-open", c("FUSE_NO_OPEN_SUPPORT"), cfg_no_open),
            ("no-opendir", c("FUSE_NO_OPENDIR_SUPPORT"), cs.no_opendir),
            ("writeback", c("FUSE_WRITEBACK_CACHE"), cfg_writeback),
            ("killpriv-v2", c("FUSE_HANDLE_KILLPRIV_V2"), cs.killpriv_v2),
            // stand-alone passthrough has no per-file-DAX switch of its own: it follows the client
            ("perfile-dax", c("FUSE_HAS_INODE_DAX"), if cs.overlay { cs.dax } else { true }),
        ];
        let mut agreed = [false; 5];
        for (i, (name, bit, configured)) in feats.iter().enumerate() {
            agreed[i] = *configured && offered & bit != 0;
            if (eff & bit != 0) != agreed[i] {
                out.fail(format!("init/{}/{}-reply", tag, name), format!("session {}: reply (flags {:#x} flags2 {:#x}) {} {} (configured {}, offered {})", si, f1, f2, if eff & bit != 0 { "enables" } else { "omits" }, name, configured, offered & bit != 0));
            }
            if seen_on[i] && !agreed[i] {
                later_off = true;
            }
            seen_on[i] |= agreed[i];
        }
        // ---- behaviour probes
        reset_file(0o644);
        let l = send(&mkreq("LOOKUP", 1, 0, 0, &[], &[b"f"], &[]));
        let Some((fid, _)) = crate::ptdrv::entry_of(&l, 0) else {
            out.fail("harness/c12/lookup", format!("LOOKUP f answered {}", l.error));
            return out;
        };
        // per-file DAX marking only when negotiated (passthrough with a DAX size threshold)
        if !cs.overlay {
            let attr_flags = get(&l.body, 40, "fuse_attr", "flags");
            let dax_on = attr_flags & c("FUSE_ATTR_DAX") != 0;
            let want = cs.dax && agreed[4];
            if dax_on != want {
                out.fail(format!("init/{}/perfile-dax-behaviour", tag), format!("session {}: lookup marks the file DAX = {} but per-file DAX negotiated = {} (threshold configured = {})", si, dax_on, agreed[4], cs.dax));
            }
        }
        let o = send(&mkreq("OPEN", fid, 0, 0, &[("flags", libc::O_RDONLY as u64)], &[], &[]));
        if (o.error == -libc::ENOSYS) != agreed[0] {
            out.fail(format!("init/{}/open-behaviour", tag), format!("session {}: OPEN answered {} but zero-message open negotiated = {}", si, o.error, agreed[0]));
        }
        if o.error == 0 {
            let fh = get(&o.body, 0, "fuse_open_out", "fh");
            let _ = send(&mkreq("RELEASE", fid, 0, 0, &[("fh", fh)], &[], &[]));
        }
        let od = send(&mkreq("OPENDIR", 1, 0, 0, &[("flags", libc::O_RDONLY as u64)], &[], &[]));
        if (od.error == -libc::ENOSYS) != agreed[1] {
            out.fail(format!("init/{}/opendir-behaviour", tag), format!("session {}: OPENDIR answered {} but zero-message opendir negotiated = {}", si, od.error, agreed[1]));
        }
        if od.error == 0 {
            let fh = get(&od.body, 0, "fuse_open_out", "fh");
            let _ = send(&mkreq("RELEASEDIR", 1, 0, 0, &[("fh", fh)], &[], &[]));
        }
        if o.error == 0 {
            // writeback behaviour: O_WRONLY becomes readable and O_APPEND is left to the client
            let w = send(&mkreq("OPEN", fid, 0, 0, &[("flags", (libc::O_WRONLY | libc::O_APPEND) as u64)], &[], &[]));
            if w.error == 0 {
                let fh = get(&w.body, 0, "fuse_open_out", "fh");
                let r = send(&mkreq("READ", fid, 0, 0, &[("fh", fh), ("offset", 0), ("size", 4), ("flags", (libc::O_WRONLY | libc::O_APPEND) as u64)], &[], &[]));
                let readable = r.error == 0;
                let wr = send(&mkreq("WRITE", fid, 0, 0, &[("fh", fh), ("offset", 0), ("size", 1), ("flags", (libc::O_WRONLY | libc::O_APPEND) as u64)], &[], b"Z"));
                let size = std::fs::metadata(&host_file).map(|m| m.len()).unwrap_or(0);
                let appended = size == CONTENT.len() as u64 + 1;
                let _ = send(&mkreq("RELEASE", fid, 0, 0, &[("fh", fh)], &[], &[]));
                // (the overlay hands the layer modified open flags, so the layer re-applies the client's
                // O_APPEND from the WRITE request itself: only readability discriminates there)
                if wr.error == 0 && (readable != agreed[2] || (!cs.overlay && appended == agreed[2])) {
                    out.fail(
                        format!("init/{}/writeback-behaviour", tag),
                        format!("session {}: on an O_WRONLY|O_APPEND handle READ {} and the write {} but writeback caching negotiated = {}", si, if readable { "works" } else { "fails" }, if appended { "appended".to_string() } else { format!("landed at its offset (size {}, content {:?}, write reply {:?})", size, std::fs::read(&host_file).ok().map(|v| String::from_utf8_lossy(&v).to_string()), wr.body) }, agreed[2]),
                    );
                }
                if wr.error != 0 {
                    out.fail("harness/c12/write", format!("WRITE answered {}", wr.error));
                }
            } else {
                out.fail("harness/c12/open-append", format!("OPEN O_WRONLY|O_APPEND answered {}", w.error));
            }
            // kill-priv behaviour (passthrough): a WRITE flagged KILL_SUIDGID clears set-uid only under v2
            if !cs.overlay {
                reset_file(0o4755);
                let w = send(&mkreq("OPEN", fid, 0, 0, &[("flags", libc::O_WRONLY as u64)], &[], &[]));
                if w.error == 0 {
                    let fh = get(&w.body, 0, "fuse_open_out", "fh");
                    let wr = send(&mkreq("WRITE", fid, 0, 0, &[("fh", fh), ("offset", 0), ("size", 1), ("write_flags", 4), ("flags", libc::O_WRONLY as u64)], &[], b"Y"));
                    let mode = sys::lstat(&host_file).map(|s| s.st_mode).unwrap_or(0);
                    let _ = send(&mkreq("RELEASE", fid, 0, 0, &[("fh", fh)], &[], &[]));
                    let cleared = mode & 0o4000 == 0;
                    if wr.error == 0 && cleared != agreed[3] {
                        out.fail(format!("init/{}/killpriv-behaviour", tag), format!("session {}: WRITE with KILL_SUIDGID {} set-uid but HANDLE_KILLPRIV_V2 negotiated = {}", si, if cleared { "cleared" } else { "kept" }, agreed[3]));
                    }
                }
            }
        }
        let _ = send(&mkreq("FORGET", fid, 0, 0, &[("nlookup", 1)], &[], &[]));
        out.class(format!("layer:{}:agreed={}", tag, agreed.iter().filter(|a| **a).count()));
    }
    if cs.sessions.len() > 1 {
        out.class("layer:re-init");
    }
    if later_off {
        out.class("layer:feature-dropped-by-later-session");
    }
    out.nontrivial = seen_on.iter().any(|x| *x);
    out
}

pub struct C12;

impl Prop for C12 {
    fn id(&self) -> &'static str {
        "C12"
    }
    fn meta(&self) -> Meta {
        Meta {
            rule: "server level: (major in {0..6,7,8,9,2^31,max}, minor 0..40|random, 32 random flag bits with/without FUSE_INIT_EXT, random flags2, extended payload present/absent/truncated, max_readahead) x filesystem option words (random 64 bits incl. bits >= 32, all, none) or fs.init errors, against Server<MockFs>; layer level: Vfs with {no_open,no_opendir,no_writeback,killpriv_v2} over a tree backend, INIT, behaviour probes (OPEN/OPENDIR ENOSYS iff negotiated), second INIT, DESTROY + INIT with different capabilities; passthrough and overlay stacks (kind layers, inside the jail): {overlay} x cfg {writeback,no_open,no_opendir,killpriv_v2,dax} x 1..3 sessions (INIT, then DESTROY+INIT) each offering a subset of the five behaviour bits with/without the extended payload; after each INIT the reply bits must equal configured&offered and the behaviour must follow the CURRENT session: OPEN/OPENDIR ENOSYS, O_WRONLY|O_APPEND handle readable / not appending (writeback), WRITE|KILL_SUIDGID clearing set-uid (kill-priv v2), lookup marking FUSE_ATTR_DAX (per-file DAX); oracle: the reply decoded as a Linux client does (flags2 only with the marker) == capable & want, reply size by minor, major rules, write-size limits; non-trivial = major 7 and non-empty intersection; distinct = distinct serialized case",
            assumptions: vec![
                "capable passed to the filesystem = announced bits restricted to the bits the library defines (FsOptions::all())".into(),
                "pre-7.23 clients get the 24-byte (pre-7.5: 8-byte) reply; only the low 32 flag bits can be compared there".into(),
            ],
            ..Meta::default()
        }
    }
    fn worker(&self, w: &WorkerCtx) -> WorkerResult {
        let n = w.share(w.tier.pick(60_000, 1_500_000));
        let mut r = drive(w, "C12", "server", n, srv_strategy(), run_srv);
        let m = w.share(w.tier.pick(20_000, 400_000));
        r.merge(drive(w, "C12", "vfs", m, vfs_strategy(), run_vfs));
        crate::jail::enter();
        let k = w.share(w.tier.pick(6_000, 150_000));
        r.merge(drive(w, "C12", "layers", k, layer_strategy(), run_layers));
        r
    }
    fn replay(&self, kind: &str, case: &Value) -> Vec<Fail> {
        match kind {
            "vfs" => run_vfs(&serde_json::from_value(case.clone()).expect("case")).fails,
            "layers" => {
                crate::jail::enter();
                run_layers(&serde_json::from_value(case.clone()).expect("case")).fails
            }
            _ => run_srv(&serde_json::from_value(case.clone()).expect("case")).fails,
        }
    }
}
