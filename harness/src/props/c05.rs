//! C05 — passthrough requests have the effect and result of the same host system call.
//! The op interpreter here is shared with C08 / C15 (different generators, different oracles).
use crate::engine::*;
use crate::jail as sys;
use crate::ptdrv::*;
use proptest::prelude::*;
use serde::{Deserialize, Serialize};
use serde_json::Value;

#[derive(Clone, Debug, Serialize, Deserialize, PartialEq)]
pub enum SetWhat {
    Mode(u32),
    Owner(Option<u8>, Option<u8>),
    Size(u64),
    Times(Option<(i64, u32)>, Option<(i64, u32)>),
    ModeAndSize(u32, u64),
}

#[derive(Clone, Debug, Serialize, Deserialize, PartialEq)]
pub enum POp {
    Lookup { p: u16, name: u8 },
    Forget { n: u16, count: u8 },
    ForgetAll { n: u16, extra: u8 },
    BatchForget { items: Vec<(u16, u8)> },
    Getattr { n: u16, h: Option<u16> },
    Setattr { n: u16, h: Option<u16>, what: SetWhat },
    Create { p: u16, name: u8, flags: u32, mode: u32, umask: u32, caller: u8 },
    Mkdir { p: u16, name: u8, mode: u32, umask: u32, caller: u8 },
    Mknod { p: u16, name: u8, kind: u8, mode: u32, umask: u32, caller: u8 },
    Symlink { p: u16, name: u8, target: u8, caller: u8 },
    Link { n: u16, p: u16, name: u8 },
    Unlink { p: u16, name: u8 },
    Rmdir { p: u16, name: u8 },
    Rename { p1: u16, n1: u8, p2: u16, n2: u8, flags: u8 },
    Open { n: u16, flags: u32 },
    Read { h: u16, off: u32, size: u32 },
    Write { h: u16, off: u32, len: u16, seed: u32 },
    Release { h: u16 },
    Flush { h: u16 },
    Fsync { h: u16, datasync: bool },
    Fallocate { h: u16, mode: u8, off: u32, len: u32 },
    Lseek { h: u16, off: u32, whence: u8 },
    Xattr { n: u16, which: u8, key: u8, len: u8, size: u8, flags: u8 },
    Readlink { n: u16 },
    Statfs { n: u16 },
    Listdir { n: u16, plus: bool, size: u32 },
    /// lookup a name, unlink it while referenced, create another file in the same directory (host inode reuse)
    UnlinkCreate { p: u16, name: u8, newname: u8 },
    /// DESTROY followed by a new INIT (client state is gone, server must have released everything)
    Reinit,
    /// use a handle with the wrong inode / after release: must be refused with EBADF
    BadHandle { h: u16, n: u16 },
}

#[derive(Clone, Debug, Serialize, Deserialize, PartialEq)]
pub struct Case {
    pub cfg: PtCfg,
    pub tree: Vec<TreeObj>,
    pub ops: Vec<POp>,
}

pub const XKEYS: &[&str] = &["user.a", "user.b", "user.long_key_name", "trusted.t", "bogus"];
pub const FALLOC_MODES: &[i32] = &[0, libc::FALLOC_FL_KEEP_SIZE, libc::FALLOC_FL_PUNCH_HOLE | libc::FALLOC_FL_KEEP_SIZE, libc::FALLOC_FL_ZERO_RANGE, libc::FALLOC_FL_ZERO_RANGE | libc::FALLOC_FL_KEEP_SIZE];

fn nsel(pt: &Pt, s: u16) -> u64 {
    let ids = pt.nodeids();
    ids[pick_idx(s, ids.len())]
}
fn hsel(pt: &Pt, s: u16) -> Option<usize> {
    if pt.handles.is_empty() {
        None
    } else {
        Some(pick_idx(s, pt.handles.len()))
    }
}
fn nm(i: u8) -> &'static [u8] {
    NAMEU[i as usize % NAMEU.len()].as_bytes()
}
fn caller(i: u8) -> (u32, u32) {
    let u = OWNERS[i as usize % OWNERS.len()];
    (u, u)
}

/// Apply one op to the world. Shared by C05, C08, C15.
pub fn apply(pt: &mut Pt, out: &mut Outcome, op: &POp) {
    match op {
        POp::Lookup { p, name } => {
            let p = nsel(pt, *p);
            pt.lookup(out, p, nm(*name));
        }
        POp::Forget { n, count } => {
            let n = nsel(pt, *n);
            pt.forget(out, n, *count as u64);
        }
        POp::ForgetAll { n, extra } => {
            let n = nsel(pt, *n);
            if n != 1 {
                let c = pt.nodes.get(&n).map(|x| x.count).unwrap_or(0);
                let k = match extra % 4 {
                    0 => c,
                    1 => c + *extra as u64,
                    2 => u64::MAX,
                    _ => c.saturating_sub(1).max(1),
                };
                pt.forget(out, n, k);
            } else {
                pt.forget(out, 1, *extra as u64 + 1);
            }
        }
        POp::BatchForget { items } => {
            let v: Vec<(u64, u64)> = items.iter().map(|(n, c)| (nsel(pt, *n), *c as u64)).collect();
            pt.batch_forget(out, &v);
        }
        POp::Getattr { n, h } => {
            let n = nsel(pt, *n);
            let h = h.and_then(|x| hsel(pt, x));
            pt.getattr(out, n, h);
        }
        POp::Setattr { n, h, what } => {
            let n = nsel(pt, *n);
            let h = h.and_then(|x| hsel(pt, x));
            let isdir = pt.nodes.get(&n).map(|x| x.ifmt == libc::S_IFDIR).unwrap_or(false);
            let islnk = pt.nodes.get(&n).map(|x| x.ifmt == libc::S_IFLNK).unwrap_or(false);
            match what {
                SetWhat::Mode(m) => {
                    if !islnk {
                        // directories keep rwx for everybody so that root-vs-caller never diverges
                        let m = if isdir { (m & 0o7000) | 0o777 } else { *m & 0o7777 };
                        pt.setattr(out, n, h, Some(m), None, None, None, None)
                    }
                }
                SetWhat::Owner(u, g) => pt.setattr(out, n, h, None, u.map(|x| OWNERS[x as usize % OWNERS.len()]), g.map(|x| OWNERS[x as usize % OWNERS.len()]), None, None),
                SetWhat::Size(s) => pt.setattr(out, n, h, None, None, None, Some(*s), None),
                SetWhat::Times(a, m) => {
                    if !islnk {
                        pt.setattr(out, n, h, None, None, None, None, Some((*a, *m)))
                    }
                }
                SetWhat::ModeAndSize(m, s) => {
                    if !islnk && !isdir {
                        pt.setattr(out, n, h, Some(*m & 0o7777), None, None, Some(*s), None)
                    }
                }
            }
        }
        POp::Create { p, name, flags, mode, umask, caller: cl } => {
            let p = nsel(pt, *p);
            let (u, g) = caller(*cl);
            // a kernel client strips O_TRUNC unless FUSE_ATOMIC_O_TRUNC was negotiated (it truncates by SETATTR)
            let flags = if pt.eff & crate::codec::c("FUSE_ATOMIC_O_TRUNC") == 0 { *flags & !(libc::O_TRUNC as u32) } else { *flags };
            pt.create(out, p, nm(*name), flags, *mode & 0o7777, *umask & 0o777, u, g);
        }
        POp::Mkdir { p, name, mode, umask, caller: cl } => {
            let p = nsel(pt, *p);
            let (u, g) = caller(*cl);
            // keep directories writable and searchable for everybody (see Setattr)
            pt.mkdir(out, p, nm(*name), (*mode & 0o7000) | 0o777, 0, u, g);
            let _ = umask;
        }
        POp::Mknod { p, name, kind, mode, umask, caller: cl } => {
            let p = nsel(pt, *p);
            let (u, g) = caller(*cl);
            let (t, rdev) = match kind % 8 {
                0 | 4 => (libc::S_IFREG, 0),
                1 => (libc::S_IFIFO, 0),
                2 => (libc::S_IFSOCK, 0),
                3 => (libc::S_IFCHR, libc::makedev(1, 3) as u32),
                // device numbers beyond 8-bit minors / with large majors (all fit the 32-bit wire field)
                5 => (libc::S_IFCHR, libc::makedev(13, 300) as u32),
                6 => (libc::S_IFBLK, libc::makedev(259, 70000) as u32),
                _ => (libc::S_IFBLK, libc::makedev(4095, 255) as u32),
            };
            // device nodes can only be made by root on the host as well
            let (u, g) = if t == libc::S_IFCHR || t == libc::S_IFBLK { (0, 0) } else { (u, g) };
            pt.mknod(out, p, nm(*name), t | (*mode & 0o777), rdev, *umask & 0o777, u, g);
        }
        POp::Symlink { p, name, target, caller: cl } => {
            let p = nsel(pt, *p);
            let (u, g) = caller(*cl);
            pt.symlink(out, p, nm(*name), LINK_TARGETS[*target as usize % LINK_TARGETS.len()].as_bytes(), u, g);
        }
        POp::Link { n, p, name } => {
            let n = nsel(pt, *n);
            let p = nsel(pt, *p);
            pt.link(out, n, p, nm(*name));
        }
        POp::Unlink { p, name } => {
            let p = nsel(pt, *p);
            pt.unlink(out, p, nm(*name), false);
        }
        POp::Rmdir { p, name } => {
            let p = nsel(pt, *p);
            pt.unlink(out, p, nm(*name), true);
        }
        POp::Rename { p1, n1, p2, n2, flags } => {
            let a = nsel(pt, *p1);
            let b = nsel(pt, *p2);
            let fl = match flags % 4 {
                0 | 1 => 0,
                2 => 1, // RENAME_NOREPLACE
                _ => 2, // RENAME_EXCHANGE
            };
            pt.rename(out, a, nm(*n1), b, nm(*n2), fl);
        }
        POp::Open { n, flags } => {
            let n = nsel(pt, *n);
            let flags = if pt.eff & crate::codec::c("FUSE_ATOMIC_O_TRUNC") == 0 { *flags & !(libc::O_TRUNC as u32) } else { *flags };
            pt.open(out, n, flags);
        }
        POp::Read { h, off, size } => {
            if let Some(h) = hsel(pt, *h) {
                pt.read(out, h, *off as u64, *size);
            }
        }
        POp::Write { h, off, len, seed } => {
            if let Some(h) = hsel(pt, *h) {
                let d = filedata(*seed, *len as usize);
                pt.write(out, h, *off as u64, &d);
            }
        }
        POp::Release { h } => {
            if let Some(h) = hsel(pt, *h) {
                pt.release(out, h);
            }
        }
        POp::Flush { h } => {
            if let Some(h) = hsel(pt, *h) {
                pt.flush_fsync(out, h, false, false);
            }
        }
        POp::Fsync { h, datasync } => {
            if let Some(h) = hsel(pt, *h) {
                pt.flush_fsync(out, h, true, *datasync);
            }
        }
        POp::Fallocate { h, mode, off, len } => {
            if let Some(h) = hsel(pt, *h) {
                pt.fallocate(out, h, FALLOC_MODES[*mode as usize % FALLOC_MODES.len()] as u32, *off as u64, *len as u64);
            }
        }
        POp::Lseek { h, off, whence } => {
            if let Some(h) = hsel(pt, *h) {
                pt.lseek(out, h, *off as u64, (*whence % 5) as u32);
            }
        }
        POp::Xattr { n, which, key, len, size, flags } => {
            let n = nsel(pt, *n);
            let k = XKEYS[*key as usize % XKEYS.len()].as_bytes();
            let v = filedata(*len as u32, *len as usize % 64);
            let size = match size % 4 {
                0 => 0,
                1 => v.len() as u32,
                2 => 1,
                _ => 256,
            };
            let fl = match flags % 4 {
                0 | 1 => 0,
                2 => libc::XATTR_CREATE as u32,
                _ => libc::XATTR_REPLACE as u32,
            };
            pt.xattr(out, n, *which, k, &v, size, fl);
        }
        POp::Readlink { n } => {
            let n = nsel(pt, *n);
            pt.readlink(out, n);
        }
        POp::Statfs { n } => {
            let n = nsel(pt, *n);
            pt.statfs(out, n);
        }
        POp::UnlinkCreate { p, name, newname } => {
            let p = nsel(pt, *p);
            if pt.lookup(out, p, nm(*name)).is_some() {
                pt.unlink(out, p, nm(*name), false);
                pt.create(out, p, nm(*newname), libc::O_RDWR as u32, 0o644, 0, 0, 0);
            }
        }
        POp::Reinit => pt.reinit(out),
        POp::BadHandle { h, n } => {
            if let Some(h) = hsel(pt, *h) {
                let n = nsel(pt, *n);
                pt.bad_handle(out, h, n);
            }
        }
        POp::Listdir { n, plus, size } => {
            let n = nsel(pt, *n);
            listdir(pt, out, n, *plus, *size);
        }
    }
}

/// list a directory completely (sequential resume) and compare with the host as a set
pub fn listdir(pt: &mut Pt, out: &mut Outcome, n: u64, plus: bool, size: u32) {
    let Some(hi) = pt.opendir(out, n) else { return };
    let mut names = std::collections::BTreeSet::new();
    let mut off = 0u64;
    let size = size.max(if plus { 512 } else { 300 });
    for _ in 0..200 {
        let Some(ents) = pt.readdir_raw(out, hi, off, size, plus) else { break };
        if ents.is_empty() {
            break;
        }
        if plus {
            pt.take_plus_entries(out, n, &ents);
        }
        for e in &ents {
            if !names.insert(e.4.clone()) {
                out.fail("dir/listdir/duplicate", format!("{:?} listed twice", String::from_utf8_lossy(&e.4)));
            }
            off = e.2;
        }
    }
    // host listing
    if let Some(node) = pt.nodes.get(&n) {
        let p = String::from_utf8_lossy(&sys::procpath(sys::raw(&node.fd))).to_string();
        if let Ok(rd) = std::fs::read_dir(&p) {
            let host: std::collections::BTreeSet<Vec<u8>> = rd.flatten().map(|e| std::os::unix::ffi::OsStrExt::as_bytes(e.file_name().as_os_str()).to_vec()).collect();
            if host != names {
                out.fail("host/listdir/names", format!("listing {:?} differs from the host's {:?}", names.iter().map(|n| String::from_utf8_lossy(n).to_string()).collect::<Vec<_>>(), host.iter().map(|n| String::from_utf8_lossy(n).to_string()).collect::<Vec<_>>()));
            }
        }
    }
    pt.release(out, hi);
}

pub fn run_world(cs: &Case, out: &mut Outcome, mut after_step: impl FnMut(&mut Pt, &mut Outcome)) -> Option<Pt> {
    fresh_dirs(&["/export", "/shadow"]);
    materialise("/export", &cs.tree);
    materialise("/shadow", &cs.tree);
    let mut pt = Pt::new(out, &cs.cfg, "/export", "/shadow")?;
    for op in &cs.ops {
        apply(&mut pt, out, op);
        if std::env::var("FBV_DEBUG").is_ok() {
            eprintln!("after {:?}: nodes {:?} handles {:?} fails {:?}", op, pt.nodes.iter().map(|(k, v)| (*k, v.count)).collect::<Vec<_>>(), pt.handles.iter().map(|h| (h.fh, h.nodeid, h.live)).collect::<Vec<_>>(), out.fails.len());
        }
        after_step(&mut pt, out);
        if !out.fails.is_empty() {
            break;
        }
    }
    Some(pt)
}

pub fn run(cs: &Case) -> Outcome {
    let mut out = Outcome::default();
    let pt = run_world(cs, &mut out, |_, _| {});
    if let Some(pt) = pt {
        if out.fails.is_empty() {
            pt.compare_trees(&mut out);
        }
        out.nontrivial = pt.mutated && pt.remutated;
        for (b, n) in [(cs.cfg.no_open, "cfg:no_open"), (cs.cfg.no_opendir, "cfg:no_opendir"), (cs.cfg.file_handles, "cfg:file_handles"), (cs.cfg.use_host_ino, "cfg:use_host_ino"), (cs.cfg.writeback, "cfg:writeback"), (cs.cfg.xattr, "cfg:xattr")] {
            if b {
                out.class(n);
            }
        }
        out.class(format!("cfg:cache={}", cs.cfg.cache % 4));
        let fdc = sys::fd_count();
        if fdc > 200 {
            out.class(format!("env:fd-count>{}", if fdc > 5000 { 5000 } else if fdc > 1000 { 1000 } else { 200 }));
        }
        if pt.no_open {
            out.class("eff:no_open");
        }
        if pt.writeback {
            out.class("eff:writeback");
        }
    }
    out.fails.retain(|f| ["host/", "cred/", "harness/", "pt/", "panic/"].iter().any(|p| f.sig.starts_with(p)));
    out
}

// ---------------------------------------------------------------- strategies

pub fn cfg_strategy() -> BoxedStrategy<PtCfg> {
    (any::<bool>(), any::<bool>(), any::<bool>(), any::<bool>(), any::<bool>(), 0u8..4, prop::bool::weighted(0.8), prop_oneof![3 => Just(0u64), 1 => Just(1u64 << 17), 1 => Just(1u64 << 16), 1 => Just(1u64 << 24)])
        .prop_map(|(no_open, no_opendir, file_handles, use_host_ino, writeback, cache, xattr, wh)| {
            // no_open only works with cache=always: make that combination frequent
            let cache = if no_open && cache != 0 { 3 } else { cache };
            PtCfg { no_open, no_opendir, file_handles, use_host_ino, writeback, cache, xattr, seal_size: false, killpriv_v2: false, client_withholds: wh }
        })
        .boxed()
}

pub fn tree_strategy() -> BoxedStrategy<Vec<TreeObj>> {
    let kind = prop_oneof![
        5 => (any::<u8>(), any::<u32>()).prop_map(|(size_sel, seed)| ObjKind::File { size_sel, seed }),
        4 => (any::<bool>(), any::<bool>()).prop_map(|(sticky, setgid)| ObjKind::Dir { sticky: sticky && setgid, setgid: false }),
        2 => any::<u8>().prop_map(ObjKind::Symlink),
        1 => any::<u8>().prop_map(ObjKind::Hardlink),
        1 => Just(ObjKind::Fifo),
        1 => Just(ObjKind::Chr),
    ];
    let obj = (prop_oneof![2 => Just(255u8), 3 => any::<u8>()], name_idx(), kind, 0u8..3).prop_map(|(parent, name, kind, owner)| TreeObj { parent, name, kind, owner });
    proptest::collection::vec(obj, 0..12).boxed()
}

fn open_flags() -> BoxedStrategy<u32> {
    (prop_oneof![Just(libc::O_RDONLY), Just(libc::O_WRONLY), Just(libc::O_RDWR)], prop_oneof![4 => Just(0), 1 => Just(libc::O_TRUNC), 1 => Just(libc::O_APPEND), 1 => Just(libc::O_TRUNC | libc::O_APPEND)])
        .prop_map(|(a, b)| (a | b) as u32)
        .boxed()
}

pub fn op_strategy() -> BoxedStrategy<POp> {
    let small = prop_oneof![Just(0u32), Just(1), Just(100), Just(4095), Just(4096), Just(4097), 0u32..70000];
    let times = prop_oneof![1 => Just(None), 3 => (0i64..2_000_000_000, 0u32..1_000_000_000).prop_map(Some)];
    let what = prop_oneof![
        3 => (0u32..0o10000).prop_map(SetWhat::Mode),
        2 => (proptest::option::of(0u8..3), proptest::option::of(0u8..3)).prop_map(|(u, g)| SetWhat::Owner(u, g)),
        3 => prop_oneof![Just(0u64), Just(1), Just(4096), Just(100000), 0u64..70000].prop_map(SetWhat::Size),
        2 => (times.clone(), times).prop_map(|(a, m)| SetWhat::Times(a, m)),
        1 => (0u32..0o10000, 0u64..70000).prop_map(|(m, s)| SetWhat::ModeAndSize(m, s)),
    ];
    prop_oneof![
        8 => (any::<u16>(), name_idx()).prop_map(|(p, name)| POp::Lookup { p, name }),
        1 => (any::<u16>(), 1u8..3).prop_map(|(n, count)| POp::Forget { n, count }),
        3 => (any::<u16>(), proptest::option::of(any::<u16>())).prop_map(|(n, h)| POp::Getattr { n, h }),
        5 => (any::<u16>(), proptest::option::of(any::<u16>()), what).prop_map(|(n, h, what)| POp::Setattr { n, h, what }),
        5 => (any::<u16>(), name_idx(), open_flags(), 0u32..0o10000, prop_oneof![Just(0u32), Just(0o22), Just(0o77), Just(0o777)], 0u8..3)
            .prop_map(|(p, name, flags, mode, umask, caller)| POp::Create { p, name, flags: flags | if mode & 1 == 1 { libc::O_EXCL as u32 } else { 0 }, mode, umask, caller }),
        3 => (any::<u16>(), name_idx(), 0u32..0o10000, Just(0u32), 0u8..3).prop_map(|(p, name, mode, umask, caller)| POp::Mkdir { p, name, mode, umask, caller }),
        3 => (any::<u16>(), name_idx(), 0u8..8, 0u32..0o1000, prop_oneof![Just(0u32), Just(0o22)], 0u8..3).prop_map(|(p, name, kind, mode, umask, caller)| POp::Mknod { p, name, kind, mode, umask, caller }),
        2 => (any::<u16>(), name_idx(), any::<u8>(), 0u8..3).prop_map(|(p, name, target, caller)| POp::Symlink { p, name, target, caller }),
        2 => (any::<u16>(), any::<u16>(), name_idx()).prop_map(|(n, p, name)| POp::Link { n, p, name }),
        3 => (any::<u16>(), name_idx()).prop_map(|(p, name)| POp::Unlink { p, name }),
        2 => (any::<u16>(), name_idx()).prop_map(|(p, name)| POp::Rmdir { p, name }),
        4 => (any::<u16>(), name_idx(), any::<u16>(), name_idx(), 0u8..4).prop_map(|(p1, n1, p2, n2, flags)| POp::Rename { p1, n1, p2, n2, flags }),
        6 => (any::<u16>(), open_flags()).prop_map(|(n, flags)| POp::Open { n, flags }),
        4 => (any::<u16>(), small.clone(), small.clone()).prop_map(|(h, off, size)| POp::Read { h, off, size }),
        6 => (any::<u16>(), small.clone(), prop_oneof![Just(0u16), Just(1), Just(4096), 0u16..9000], any::<u32>()).prop_map(|(h, off, len, seed)| POp::Write { h, off, len, seed }),
        2 => any::<u16>().prop_map(|h| POp::Release { h }),
        1 => any::<u16>().prop_map(|h| POp::Flush { h }),
        1 => (any::<u16>(), any::<bool>()).prop_map(|(h, datasync)| POp::Fsync { h, datasync }),
        3 => (any::<u16>(), 0u8..5, small.clone(), small.clone()).prop_map(|(h, mode, off, len)| POp::Fallocate { h, mode, off, len: len.max(1) }),
        2 => (any::<u16>(), small, 0u8..5).prop_map(|(h, off, whence)| POp::Lseek { h, off, whence }),
        4 => (any::<u16>(), 0u8..4, 0u8..5, any::<u8>(), 0u8..4, 0u8..4).prop_map(|(n, which, key, len, size, flags)| POp::Xattr { n, which, key, len, size, flags }),
        2 => any::<u16>().prop_map(|n| POp::Readlink { n }),
        1 => any::<u16>().prop_map(|n| POp::Statfs { n }),
        2 => (any::<u16>(), any::<bool>(), prop_oneof![Just(4096u32), Just(512), 300u32..3000]).prop_map(|(n, plus, size)| POp::Listdir { n, plus, size }),
    ]
    .boxed()
}

pub fn strategy() -> BoxedStrategy<Case> {
    (cfg_strategy(), tree_strategy(), proptest::collection::vec(op_strategy(), 1..40))
        .prop_map(|(cfg, tree, ops)| Case { cfg, tree, ops })
        .boxed()
}

pub struct C05;

impl Prop for C05 {
    fn id(&self) -> &'static str {
        "C05"
    }
    fn meta(&self) -> Meta {
        Meta {
            rule: "histories (1..40 ops) against Server<PassthroughFs> in a chroot jail: config {no_open,no_opendir,inode_file_handles,use_host_ino,writeback} x cache policy x xattr x withheld client capabilities; initial tree of 0..12 objects (files of sizes 0..64K, dirs, symlinks incl. dangling/absolute, hard links, FIFO, char device, owners 0/1000/1001) materialised twice (/export, /shadow); ops lookup, getattr, setattr(mode|owner|size|times|combined, with/without handle), create/mkdir/mknod/symlink as callers 0/1000/1001, link, unlink, rmdir, rename(0|NOREPLACE|EXCHANGE), open(accmode x TRUNC/APPEND), read, write, release, flush, fsync, fallocate(5 modes), lseek(5 whence), xattr set/get/list/remove, readlink, statfs, directory listing; oracle: the same system call on /shadow (creation as the caller), per-op errno/attributes/data, final host walk of both trees, thread euid/egid/capabilities after every request; non-trivial = a successful mutation of an object that was mutated before; distinct = distinct serialized case",
            assumptions: vec![
                "host kernel 6.18 / ext4 is the reference; both trees live on the same file system in the jail".into(),
                "directories keep mode 0777 so that root-vs-caller permission differences never decide an outcome (the server is not a permission enforcer)".into(),
                "chmod/utimens are not sent for symlink inodes (a kernel client never does)".into(),
                "inode numbers are compared only up to 'same file <=> same number'; timestamps only when set explicitly".into(),
            ],
            workers_quick: 8,
            ..Meta::default()
        }
    }
    fn worker(&self, w: &WorkerCtx) -> WorkerResult {
        sys::enter();
        let n = w.share(w.tier.pick(40_000, 1_500_000));
        drive(w, "C05", "history", n, strategy(), run)
    }
    fn replay(&self, _kind: &str, case: &Value) -> Vec<Fail> {
        sys::enter();
        let c: Case = serde_json::from_value(case.clone()).expect("case");
        run(&c).fails
    }
}
