//! C16 — directory listing returns each entry exactly once across any chunking/resumption.
use crate::codec::{get, ssize};
use crate::engine::*;
use crate::jail as sys;
use crate::ptdrv::*;
use crate::vfsdrv::{call, mkreq, VfsWorld};
use fuse_backend_rs::api::filesystem::FileSystem;
use fuse_backend_rs::api::server::Server;
use fuse_backend_rs::api::VfsOptions;
use fuse_backend_rs::passthrough::PassthroughFs;
use proptest::prelude::*;
use serde::{Deserialize, Serialize};
use serde_json::Value;
use std::collections::BTreeMap;

#[derive(Clone, Debug, Serialize, Deserialize, PartialEq)]
pub enum Target {
    Passthrough { no_opendir: bool, file_handles: bool },
    /// pseudo-fs directory with `n` mount points below it
    Pseudo { n: u16 },
    /// passthrough mounted in a Vfs at /m, listing its root through the Vfs
    VfsPassthrough { no_opendir: bool },
}

#[derive(Clone, Debug, Serialize, Deserialize, PartialEq)]
pub enum Resume {
    Start,
    /// continue after the last entry this chain returned
    Continue,
    /// after any entry returned so far (going back or jumping)
    Any(u16),
}

#[derive(Clone, Debug, Serialize, Deserialize, PartialEq)]
pub struct Step {
    pub handle: u8,
    pub resume: Resume,
    /// extra bytes beyond what the next entry needs; u16::MAX = 64 KiB buffer
    pub slack: u16,
    pub plus: bool,
}

#[derive(Clone, Debug, Serialize, Deserialize, PartialEq)]
pub struct Case {
    pub target: Target,
    pub names: Vec<NameK>,
    pub steps: Vec<Step>,
}

#[derive(Clone, Debug, Serialize, Deserialize, PartialEq)]
pub struct NameK {
    #[serde(with = "hexbytes")]
    pub name: Vec<u8>,
    /// 0 file, 1 dir, 2 symlink, 3 fifo
    pub kind: u8,
}

#[derive(Clone, Debug, PartialEq)]
struct Ent {
    name: Vec<u8>,
    ino: u64,
    off: u64,
    typ: u32,
    nodeid: u64,
    mode: u32,
    size: u64,
}

fn parse(body: &[u8], plus: bool, out: &mut Outcome) -> Vec<Ent> {
    let esz = if plus { ssize("fuse_entry_out") } else { 0 };
    let dsz = ssize("fuse_dirent");
    let mut v = vec![];
    let mut pos = 0;
    while pos < body.len() {
        if pos + esz + dsz > body.len() {
            out.fail("dir/partial-record", "trailing bytes do not form a whole record");
            break;
        }
        let dp = pos + esz;
        let namelen = get(body, dp, "fuse_dirent", "namelen") as usize;
        if dp + dsz + namelen > body.len() {
            out.fail("dir/partial-record", "record name exceeds the payload");
            break;
        }
        let rec = esz + ((dsz + namelen + 7) & !7);
        if pos + rec > body.len() {
            out.fail("dir/unaligned-record", "record is not padded to 8 bytes within the payload");
            break;
        }
        v.push(Ent {
            name: body[dp + dsz..dp + dsz + namelen].to_vec(),
            ino: get(body, dp, "fuse_dirent", "ino"),
            off: get(body, dp, "fuse_dirent", "off"),
            typ: get(body, dp, "fuse_dirent", "type") as u32,
            nodeid: if plus { get(body, pos, "fuse_entry_out", "nodeid") } else { 0 },
            mode: if plus { get(body, pos, "fuse_entry_out", "attr.mode") as u32 } else { 0 },
            size: if plus { get(body, pos, "fuse_entry_out", "attr.size") } else { 0 },
        });
        pos += rec;
    }
    v
}

struct Lister<'a, F: FileSystem + Sync> {
    srv: &'a Server<F>,
    dir: u64,
    no_opendir: bool,
    handles: Vec<u64>,
    /// references handed out by READDIRPLUS: nodeid -> count
    refs: BTreeMap<u64, u64>,
}

impl<'a, F: FileSystem + Sync> Lister<'a, F> {
    fn open(&mut self, out: &mut Outcome) -> Option<usize> {
        if self.no_opendir {
            self.handles.push(0);
            return Some(self.handles.len() - 1);
        }
        let rep = call(self.srv, &mkreq("OPENDIR", self.dir, 0, 0, &[("flags", 0)], &[], &[]));
        if rep.error != 0 {
            out.fail("dir/opendir", format!("OPENDIR answered {}", rep.error));
            return None;
        }
        let fh = get(&rep.body, 0, "fuse_open_out", "fh");
        self.handles.push(fh);
        Some(self.handles.len() - 1)
    }
    fn read(&mut self, out: &mut Outcome, h: usize, off: u64, size: u32, plus: bool) -> Option<Vec<Ent>> {
        let rep = call(self.srv, &mkreq(if plus { "READDIRPLUS" } else { "READDIR" }, self.dir, 0, 0, &[("fh", self.handles[h]), ("offset", off), ("size", size as u64)], &[], &[]));
        if rep.nreplies != 1 || rep.error != 0 {
            out.fail("dir/readdir-error", format!("readdir(offset {}, size {}, plus {}) answered {} ({} replies)", off, size, plus, rep.error, rep.nreplies));
            return None;
        }
        if rep.body.len() > size as usize {
            out.fail("dir/oversize", format!("{} bytes for a {}-byte request", rep.body.len(), size));
        }
        let v = parse(&rep.body, plus, out);
        if std::env::var("FBV_DEBUG").is_ok() {
            eprintln!("readdir h={} off={} size={} plus={} -> {:?}", h, off, size, plus, v.iter().map(|e| (String::from_utf8_lossy(&e.name).to_string(), e.off)).collect::<Vec<_>>());
        }
        if plus {
            for e in &v {
                if e.nodeid != 0 {
                    *self.refs.entry(e.nodeid).or_insert(0) += 1;
                }
            }
        }
        Some(v)
    }
}

fn need(e: &Ent, plus: bool) -> u32 {
    ((if plus { ssize("fuse_entry_out") } else { 0 }) + ((ssize("fuse_dirent") + e.name.len() + 7) & !7)) as u32
}

/// The plan interpreter, independent of what serves the directory.
fn run_plan<F: FileSystem + Sync>(out: &mut Outcome, l: &mut Lister<F>, steps: &[Step], host: &BTreeMap<Vec<u8>, (u32, u32, u64)>, check_attrs: bool) -> (bool, bool) {
    // reference pass
    let Some(h0) = l.open(out) else { return (false, false) };
    let mut s: Vec<Ent> = vec![];
    let mut off = 0u64;
    for _ in 0..100000 {
        let Some(v) = l.read(out, h0, off, 65536, false) else { return (false, false) };
        if v.is_empty() {
            break;
        }
        off = v.last().unwrap().off;
        s.extend(v);
        if !out.fails.is_empty() {
            return (false, false);
        }
    }
    // S as a set == host listing, each name once, offsets non-zero and distinct
    let mut seen = std::collections::BTreeSet::new();
    let mut offs = std::collections::BTreeSet::new();
    for e in &s {
        if e.name == b"." || e.name == b".." {
            out.fail("dir/dot-entry", "\".\" or \"..\" listed");
        }
        if !seen.insert(e.name.clone()) {
            out.fail("dir/duplicate", format!("{:?} listed twice in a sequential pass", String::from_utf8_lossy(&e.name)));
        }
        if e.off == 0 || !offs.insert(e.off) {
            out.fail("dir/offset", format!("entry {:?} has continuation offset {} (zero or repeated)", String::from_utf8_lossy(&e.name), e.off));
        }
        match host.get(&e.name) {
            None => out.fail("dir/phantom", format!("{:?} does not exist on the host", String::from_utf8_lossy(&e.name))),
            Some((dt, _, _)) => {
                if e.typ != 0 && e.typ != *dt {
                    out.fail("dir/type", format!("{:?} has type {} on the host but {} in the listing", String::from_utf8_lossy(&e.name), dt, e.typ));
                }
            }
        }
    }
    for n in host.keys() {
        if !seen.contains(n) {
            out.fail("dir/missing", format!("{:?} exists on the host but is not listed", String::from_utf8_lossy(n)));
        }
    }
    if !out.fails.is_empty() {
        return (false, false);
    }
    // generated plan
    let mut hs = vec![h0];
    let mut chain_pos: Vec<Option<usize>> = vec![None]; // index in S of the last entry returned per handle
    let mut probed_end = vec![false; 4]; // per handle: the previous request on it read at the end of the directory
    let mut mirror: Vec<Option<std::os::fd::OwnedFd>> = vec![None, None, None, None];
    let mut returned: Vec<usize> = vec![]; // indices of S returned so far (for Resume::Any)
    let mut backward = false;
    let mut switches = 0;
    let mut last_handle = usize::MAX;
    let mut replies = 0;
    for st in steps {
        let hi = st.handle as usize % 3;
        while hs.len() <= hi {
            match l.open(out) {
                Some(h) => {
                    hs.push(h);
                    chain_pos.push(None);
                }
                None => return (false, false),
            }
        }
        let k: Option<usize> = match &st.resume {
            Resume::Start => None,
            Resume::Continue => chain_pos[hi],
            Resume::Any(i) => {
                if returned.is_empty() {
                    None
                } else {
                    Some(returned[pick_idx(*i, returned.len())])
                }
            }
        };
        if let (Some(a), Some(b)) = (k, chain_pos[hi]) {
            if a < b {
                backward = true;
            }
        }
        if last_handle != usize::MAX && last_handle != hi {
            switches += 1;
        }
        last_handle = hi;
        let next = match k {
            None => 0,
            Some(i) => i + 1,
        };
        let off = match k {
            None => 0,
            Some(i) => s[i].off,
        };
        let size = if st.slack == u16::MAX {
            65536
        } else if next < s.len() {
            need(&s[next], st.plus) + st.slack as u32
        } else {
            256 + st.slack as u32
        };
        let Some(mut v) = l.read(out, hs[hi], off, size, st.plus) else { return (false, false) };
        replies += 1;
        // does the host show the quirk for this very sequence (end-of-directory read, then seek back)?
        let quirk = next < s.len()
            && probed_end[hi]
            && mirror[hi].as_ref().is_some_and(|m| {
                let _ = sys::lseek(sys::raw(m), off as i64, libc::SEEK_SET);
                sys::getdents_len(sys::raw(m), 65536) == Ok(0)
            });
        if next < s.len() && v.is_empty() && quirk {
            out.class("dir:retry-after-end-probe");
            let Some(v2) = l.read(out, hs[hi], off, size, st.plus) else { return (false, false) };
            v = v2;
        }
        if next < s.len() {
            probed_end[hi] = false;
        }
        if next >= s.len() {
            if !v.is_empty() {
                out.fail("dir/not-empty-at-end", format!("resuming after the last entry returned {} entries", v.len()));
            }
            // Host quirk (ext4 on this kernel, reproduced with bare lseek/getdents64): after
            // lseek(fd, <end-of-directory position>) + getdents64 the NEXT lseek + getdents64 on that
            // descriptor can return nothing once. It is not papered over in advance (that would also
            // reset the server's position cache). The same system calls are replayed on a descriptor of
            // our own; only when THAT shows the quirk for the next request is an empty reply retried once.
            if check_attrs && !s.is_empty() {
                probed_end[hi] = true;
                // the same system calls on a descriptor of our own (the quirk is per descriptor)
                if mirror[hi].is_none() {
                    mirror[hi] = sys::openat(libc::AT_FDCWD, b"/export", libc::O_RDONLY | libc::O_DIRECTORY, 0).ok();
                }
                if let Some(m) = &mirror[hi] {
                    let _ = sys::lseek(sys::raw(m), off as i64, libc::SEEK_SET);
                    let _ = sys::getdents_len(sys::raw(m), 65536);
                }
            }
            continue;
        }
        if v.is_empty() {
            // "." and ".." sit at hash positions anywhere in an ext4 listing (2 x 24 bytes of getdents64
            // output); the server reads the host batch into a buffer of the client's size and then
            // drops them, so a buffer with less than 48 spare bytes can come back empty
            let dots = check_attrs && size < need(&s[next], st.plus) + 48;
            out.fail(
                if dots { "dir/empty-before-end:dot-entries-consume-buffer" } else { "dir/empty-before-end" },
                format!("resuming at offset {} (entry #{} of {}) with a {}-byte buffer that holds the next entry returned nothing", off, next, s.len(), size),
            );
            return (false, false);
        }
        for (j, e) in v.iter().enumerate() {
            let want = s.get(next + j);
            match want {
                Some(wt) if wt.name == e.name && wt.off == e.off && (e.typ == wt.typ) => {}
                _ => {
                    out.fail(
                        if st.plus { "dir/sequence-plus" } else { "dir/sequence" },
                        format!(
                            "resuming after entry #{} returned {:?} at position {} where the listing has {:?}",
                            next as i64 - 1,
                            String::from_utf8_lossy(&e.name),
                            next + j,
                            want.map(|w| String::from_utf8_lossy(&w.name).to_string())
                        ),
                    );
                    return (false, false);
                }
            }
            if st.plus && check_attrs {
                if let Some((_, mode, size)) = host.get(&e.name) {
                    if e.nodeid == 0 || e.mode != *mode || (e.mode & libc::S_IFMT == libc::S_IFREG && e.size != *size) {
                        out.fail("dir/plus-attr", format!("plus entry {:?}: nodeid {} mode {:o} size {} but the host file has mode {:o} size {}", String::from_utf8_lossy(&e.name), e.nodeid, e.mode, e.size, mode, size));
                    }
                }
            }
            returned.push(next + j);
        }
        chain_pos[hi] = Some(next + v.len() - 1);
    }
    (replies >= 3 && (backward || switches > 0), backward)
}

fn make_dir(path: &str, names: &[NameK]) -> BTreeMap<Vec<u8>, (u32, u32, u64)> {
    let mut host = BTreeMap::new();
    let d = sys::openat(libc::AT_FDCWD, path.as_bytes(), libc::O_RDONLY | libc::O_DIRECTORY, 0).unwrap();
    for (i, n) in names.iter().enumerate() {
        if n.name.is_empty() || n.name == b"." || n.name == b".." || host.contains_key(&n.name) {
            continue;
        }
        let r = match n.kind % 4 {
            0 => sys::openat(sys::raw(&d), &n.name, libc::O_CREAT | libc::O_WRONLY, 0o644).and_then(|f| sys::pwrite(sys::raw(&f), &vec![7u8; i % 50], 0).map(|_| ())),
            1 => sys::mkdirat(sys::raw(&d), &n.name, 0o755),
            2 => sys::symlinkat(b"target", sys::raw(&d), &n.name),
            _ => sys::mknodat(sys::raw(&d), &n.name, libc::S_IFIFO | 0o644, 0),
        };
        if r.is_ok() {
            if let Ok(f) = sys::openat(sys::raw(&d), &n.name, libc::O_PATH | libc::O_NOFOLLOW, 0) {
                if let Ok(st) = sys::fstat(sys::raw(&f)) {
                    let dt = match st.st_mode & libc::S_IFMT {
                        libc::S_IFREG => libc::DT_REG,
                        libc::S_IFDIR => libc::DT_DIR,
                        libc::S_IFLNK => libc::DT_LNK,
                        libc::S_IFIFO => libc::DT_FIFO,
                        _ => libc::DT_UNKNOWN,
                    } as u32;
                    host.insert(n.name.clone(), (dt, st.st_mode, st.st_size as u64));
                }
            }
        }
    }
    host
}

/// exactly the delivered plus entries gained one reference: forget exactly those, then none may resolve
fn check_refs<F: FileSystem + Sync>(out: &mut Outcome, srv: &Server<F>, refs: &BTreeMap<u64, u64>, root: u64) {
    for (id, k) in refs {
        if *id == root {
            continue;
        }
        // still valid before forgetting
        let g = call(srv, &mkreq("GETATTR", *id, 0, 0, &[], &[], &[]));
        if g.error != 0 {
            out.fail("dir/plus-ref-missing", format!("entry delivered by READDIRPLUS ({}x) does not resolve: GETATTR({}) = {}", k, id, g.error));
            return;
        }
        let _ = call(srv, &mkreq("FORGET", *id, 0, 0, &[("nlookup", *k)], &[], &[]));
        let g = call(srv, &mkreq("GETATTR", *id, 0, 0, &[], &[], &[]));
        if g.error == 0 {
            out.fail("dir/plus-ref-extra", format!("after forgetting the {} delivered references inode {} still resolves", k, id));
            return;
        }
    }
}

pub fn run(cs: &Case) -> Outcome {
    let mut out = Outcome::default();
    match &cs.target {
        Target::Passthrough { no_opendir, file_handles } => {
            fresh_dirs(&["/export", "/shadow"]);
            let host = make_dir("/export", &cs.names);
            let cfg = PtCfg { no_opendir: *no_opendir, file_handles: *file_handles, ..PtCfg::default() };
            let Some(pt) = Pt::new(&mut out, &cfg, "/export", "/shadow") else { return out };
            let mut l = Lister { srv: &pt.srv, dir: 1, no_opendir: pt.no_opendir, handles: vec![], refs: BTreeMap::new() };
            let (nt, _) = run_plan(&mut out, &mut l, &cs.steps, &host, true);
            out.nontrivial = nt;
            if out.fails.is_empty() {
                let refs = l.refs.clone();
                check_refs(&mut out, &pt.srv, &refs, 1);
            }
            out.class(format!("target:passthrough{}", if pt.no_opendir { "+no_opendir" } else { "" }));
        }
        Target::Pseudo { n } => {
            let w = VfsWorld::new(VfsOptions { no_opendir: false, no_open: false, ..VfsOptions::default() });
            let log = w.log.clone();
            let mut host = BTreeMap::new();
            for i in 0..*n {
                let name = format!("m{}", i);
                let spec = crate::vfsdrv::TreeSpec { root_ino: 1, root_uid: 0, root_gid: 0, children: vec![] };
                if w.vfs.mount(Box::new(crate::vfsdrv::TreeFs::new(i as usize, &spec, log.clone())), &format!("/p/{}", name)).is_err() {
                    break;
                }
                host.insert(name.into_bytes(), (0u32, libc::S_IFDIR | 0o755, 0u64));
            }
            // some mount points are vacated again: their pseudo directories stay
            w.init(FUSE_ALL);
            let l0 = w.call(&mkreq("LOOKUP", 1, 0, 0, &[], &[b"p"], &[])).0;
            let Some(e) = l0.entry(0) else {
                if *n == 0 {
                    return out;
                }
                out.fail("dir/pseudo-lookup", "cannot look up the pseudo directory");
                return out;
            };
            let mut l = Lister { srv: &w.srv, dir: e.nodeid, no_opendir: false, handles: vec![], refs: BTreeMap::new() };
            let (nt, _) = run_plan(&mut out, &mut l, &cs.steps, &host, false);
            out.nontrivial = nt;
            out.class("target:pseudo");
        }
        Target::VfsPassthrough { no_opendir } => {
            fresh_dirs(&["/export", "/shadow"]);
            let host = make_dir("/export", &cs.names);
            let mut o = VfsOptions::default();
            o.no_opendir = *no_opendir;
            o.no_open = false;
            let w = VfsWorld::new(o);
            let cfg = PtCfg { no_opendir: *no_opendir, ..PtCfg::default() };
            let fs = match PassthroughFs::<()>::new(config_of(&cfg, "/export", false)) {
                Ok(f) => f,
                Err(e) => {
                    out.fail("pt/new", format!("{}", e));
                    return out;
                }
            };
            if fs.import().is_err() || w.vfs.mount(Box::new(fs), "/m").is_err() {
                out.fail("pt/mount", "cannot mount passthrough in the vfs");
                return out;
            }
            let irep = w.init(FUSE_ALL);
            let nod = {
                let mut full = irep.body.clone();
                full.resize(ssize("fuse_init_out"), 0);
                get(&full, 0, "fuse_init_out", "flags") & crate::codec::c("FUSE_NO_OPENDIR_SUPPORT") != 0
            };
            let l0 = w.call(&mkreq("LOOKUP", 1, 0, 0, &[], &[b"m"], &[])).0;
            let Some(e) = l0.entry(0) else {
                out.fail("dir/vfs-lookup", "cannot look up the mount point");
                return out;
            };
            let mut l = Lister { srv: &w.srv, dir: e.nodeid, no_opendir: nod, handles: vec![], refs: BTreeMap::new() };
            let (nt, _) = run_plan(&mut out, &mut l, &cs.steps, &host, true);
            out.nontrivial = nt;
            if out.fails.is_empty() {
                let refs = l.refs.clone();
                check_refs(&mut out, &w.srv, &refs, e.nodeid);
            }
            out.class(format!("target:vfs+passthrough{}", if nod { "+no_opendir" } else { "" }));
        }
    }
    out.class(format!("entries:{}", match cs.names.len() { 0 => "0", 1..=3 => "1-3", 4..=40 => "4-40", _ => ">40" }));
    out
}

fn name_strategy() -> BoxedStrategy<Vec<u8>> {
    let b = prop_oneof![5 => b'a'..=b'z', 1 => 1u8..=255u8].prop_filter("no slash", |x| *x != b'/');
    prop_oneof![
        6 => proptest::collection::vec(b.clone(), 1..=9),
        2 => proptest::collection::vec(b.clone(), 1..=60),
        1 => proptest::collection::vec(b, 200..=255),
    ]
    .boxed()
}

fn strategy(tier: Tier) -> BoxedStrategy<Case> {
    let big = tier.pick(300usize, 2000usize);
    let names = prop_oneof![
        8 => proptest::collection::vec((name_strategy(), 0u8..4).prop_map(|(name, kind)| NameK { name, kind }), 0..41),
        1 => proptest::collection::vec((name_strategy(), 0u8..4).prop_map(|(name, kind)| NameK { name, kind }), 100..101),
        1 => proptest::collection::vec((name_strategy(), 0u8..4).prop_map(|(name, kind)| NameK { name, kind }), big..big + 1),
    ];
    let target = prop_oneof![
        5 => (any::<bool>(), any::<bool>()).prop_map(|(no_opendir, file_handles)| Target::Passthrough { no_opendir, file_handles }),
        2 => prop_oneof![0u16..12, 100u16..101, 1u16..240].prop_map(|n| Target::Pseudo { n }),
        2 => any::<bool>().prop_map(|no_opendir| Target::VfsPassthrough { no_opendir }),
    ];
    let step = (
        0u8..3,
        prop_oneof![1 => Just(Resume::Start), 5 => Just(Resume::Continue), 4 => any::<u16>().prop_map(Resume::Any)],
        // buffers with fewer than 48 spare bytes run into the known finding (dot entries): keep them rare
        prop_oneof![1 => prop_oneof![Just(0u16), 0u16..48], 12 => Just(48u16), 8 => 48u16..64, 12 => 48u16..600, 4 => Just(4000u16), 4 => Just(u16::MAX)],
        any::<bool>(),
    )
        .prop_map(|(handle, resume, slack, plus)| Step { handle, resume, slack, plus });
    (target, names, proptest::collection::vec(step, 1..40)).prop_map(|(target, names, steps)| Case { target, names, steps }).boxed()
}

pub struct C16;

impl Prop for C16 {
    fn id(&self) -> &'static str {
        "C16"
    }
    fn meta(&self) -> Meta {
        Meta {
            rule: "directories of 0..40, 100 and 300 (thorough 5000) entries with names of 1..255 random bytes and mixed types, served by passthrough ({no_opendir} x {file handles}), by the pseudo fs (0..240 mount points under one parent) and by passthrough behind a Vfs; a first sequential pass fixes the entry sequence S; then a generated plan of up to 40 reads on up to 3 handles (or handle-less), each resuming from offset 0, from the handle's last returned entry or from ANY previously returned entry, with a buffer of exactly the next entry's size plus 0..4000 bytes (or 64 KiB), plain or plus; oracle: the reply to 'offset of S[k]' is S[k+1..k+m], m>=1 unless k is last (then empty); S as a set == host listing with matching d_type; offsets non-zero and distinct; payload <= size; plus entries carry the named file's attributes; exactly the delivered plus entries hold one reference (forget exactly those, then none resolves); non-trivial = >= 3 replies including a backward resume or a handle switch; distinct = distinct serialized case",
            assumptions: vec![
                "the directory is not modified while it is listed".into(),
                "FUSE_LSEEK on a directory handle between two READDIRs is not generated (a kernel never sends it)".into(),
                "host order of an unchanged ext4 directory is stable (htree hash order)".into(),
            ],
            ..Meta::default()
        }
    }
    fn worker(&self, w: &WorkerCtx) -> WorkerResult {
        sys::enter();
        let n = w.share(w.tier.pick(6_000, 60_000));
        set_max_shrink_iters(400);
        drive(w, "C16", "plan", n, strategy(w.tier), run)
    }
    fn replay(&self, _kind: &str, case: &Value) -> Vec<Fail> {
        sys::enter();
        run(&serde_json::from_value(case.clone()).expect("case")).fails
    }
}
