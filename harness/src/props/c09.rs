//! C09 — concurrent lookups and forgets never lose a reference or duplicate an inode.
//! The harness owns the schedule: cfg-guarded yield points in the code under test park the
//! calling thread; exactly one thread runs at a time and the next one is chosen by the case.
use crate::engine::*;
use crate::jail as sys;
use crate::ptdrv::{config_of, fresh_dirs, PtCfg};
use fuse_backend_rs::api::filesystem::{Context, DirEntry, Entry, FileSystem};
use fuse_backend_rs::passthrough::{verif, PassthroughFs};
use proptest::prelude::*;
use serde::{Deserialize, Serialize};
use serde_json::Value;
use std::cell::Cell;
use std::ffi::CString;
use std::sync::{Arc, Condvar, Mutex};

#[derive(Clone, Debug, Serialize, Deserialize, PartialEq)]
pub enum COp {
    LookupA,
    LookupB,
    Forget(u8),
    ReaddirPlus,
    Getattr,
}

#[derive(Clone, Debug, Serialize, Deserialize, PartialEq)]
pub struct Prog {
    /// references this thread owns when it starts
    pub init: u8,
    pub ops: Vec<COp>,
}

#[derive(Clone, Debug, Serialize, Deserialize, PartialEq)]
pub struct Case {
    pub file_handles: bool,
    pub use_host_ino: bool,
    pub progs: Vec<Prog>,
    pub schedule: Vec<u8>,
}

thread_local! {
    static TID: Cell<Option<usize>> = const { Cell::new(None) };
}

struct Sched {
    /// thread currently holding the baton
    current: Option<usize>,
    parked: Vec<bool>,
    done: Vec<bool>,
    schedule: Vec<u8>,
    pos: usize,
    /// number of runnable threads at each decision (for exhaustive exploration)
    branching: Vec<u8>,
    steps: usize,
    switches: usize,
    limit: usize,
    livelock: bool,
}

struct Shared {
    m: Mutex<Sched>,
    cv: Condvar,
}

static SHARED: Mutex<Option<Arc<Shared>>> = Mutex::new(None);

fn shared() -> Option<Arc<Shared>> {
    SHARED.lock().unwrap().clone()
}

impl Sched {
    /// choose who runs next among the parked, not finished threads
    fn pick(&mut self, from: usize) -> Option<usize> {
        let runnable: Vec<usize> = (0..self.parked.len()).filter(|i| self.parked[*i] && !self.done[*i]).collect();
        if runnable.is_empty() {
            return None;
        }
        let c = if self.pos < self.schedule.len() { self.schedule[self.pos] as usize % runnable.len() } else { 0 };
        self.pos += 1;
        self.branching.push(runnable.len() as u8);
        let next = runnable[c];
        if next != from {
            self.switches += 1;
        }
        Some(next)
    }
}

/// called by the code under test at every yield point, and by the harness at thread start/end
fn yield_now(site: &'static str) {
    let Some(tid) = TID.with(|t| t.get()) else { return };
    let Some(sh) = shared() else { return };
    let mut g = sh.m.lock().unwrap();
    g.steps += 1;
    if g.steps > g.limit {
        g.livelock = true;
        drop(g);
        sh.cv.notify_all();
        panic!("scheduler step limit exceeded at {}", site);
    }
    g.parked[tid] = true;
    // nobody runs before every thread has arrived at its start point, so that every decision sees
    // all runnable threads
    let all_arrived = (0..g.parked.len()).all(|i| g.parked[i] || g.done[i]);
    if g.current == Some(tid) || (g.current.is_none() && all_arrived) {
        let next = g.pick(tid);
        g.current = next;
    }
    sh.cv.notify_all();
    while g.current != Some(tid) {
        if g.livelock {
            drop(g);
            panic!("scheduler aborted");
        }
        g = sh.cv.wait(g).unwrap();
    }
    g.parked[tid] = false;
}

fn finish() {
    let Some(tid) = TID.with(|t| t.get()) else { return };
    let Some(sh) = shared() else { return };
    let mut g = sh.m.lock().unwrap();
    g.done[tid] = true;
    g.parked[tid] = false;
    if g.current == Some(tid) {
        let next = g.pick(tid);
        g.current = next;
    }
    sh.cv.notify_all();
}

pub struct RunResult {
    pub fails: Vec<Fail>,
    pub branching: Vec<u8>,
    pub switches: usize,
}

fn ctx() -> Context {
    Context { uid: 0, gid: 0, pid: 1 }
}

pub fn execute(cs: &Case) -> RunResult {
    let mut fails = vec![];
    fresh_dirs(&["/export"]);
    std::fs::write("/export/a", b"x").unwrap();
    std::fs::hard_link("/export/a", "/export/b").unwrap();
    let cfg = PtCfg { file_handles: cs.file_handles, use_host_ino: cs.use_host_ino, ..PtCfg::default() };
    let fs = match PassthroughFs::<()>::new(config_of(&cfg, "/export", true)) {
        Ok(f) => Arc::new(f),
        Err(e) => return RunResult { fails: vec![Fail::new("pt/new", format!("{}", e))], branching: vec![], switches: 0 },
    };
    if fs.import().is_err() {
        return RunResult { fails: vec![Fail::new("pt/import", "import failed")], branching: vec![], switches: 0 };
    }
    let a = CString::new("a").unwrap();
    let b = CString::new("b").unwrap();
    // initial references, taken sequentially on this (unscheduled) thread
    let r0: u64 = cs.progs.iter().map(|p| p.init as u64).sum();
    let mut base_id = None;
    for _ in 0..r0 {
        match fs.lookup(&ctx(), 1, &a) {
            Ok(e) => base_id = Some(e.inode),
            Err(e) => fails.push(Fail::new("conc/setup", format!("{}", e))),
        }
    }
    let n = cs.progs.len();
    let sh = Arc::new(Shared {
        m: Mutex::new(Sched {
            current: None,
            parked: vec![false; n],
            done: vec![false; n],
            schedule: cs.schedule.clone(),
            pos: 0,
            branching: vec![],
            steps: 0,
            switches: 0,
            limit: 3000,
            livelock: false,
        }),
        cv: Condvar::new(),
    });
    *SHARED.lock().unwrap() = Some(sh.clone());
    verif::set_yield_hook(Some(Box::new(yield_now)));
    let results: Arc<Mutex<Vec<(usize, Vec<u64>, i64, Vec<String>)>>> = Arc::new(Mutex::new(vec![]));
    let mut threads = vec![];
    for (tid, prog) in cs.progs.iter().enumerate() {
        let fs = fs.clone();
        let prog = prog.clone();
        let results = results.clone();
        let (a, b) = (a.clone(), b.clone());
        threads.push(std::thread::spawn(move || {
            TID.with(|t| t.set(Some(tid)));
            let r = std::panic::catch_unwind(std::panic::AssertUnwindSafe(|| {
                yield_now("thread:start");
                let mut ids: Vec<u64> = vec![];
                let mut owned: i64 = prog.init as i64;
                let mut errs: Vec<String> = vec![];
                let mut last: Option<u64> = base_id;
                for op in &prog.ops {
                    match op {
                        COp::LookupA | COp::LookupB => match fs.lookup(&ctx(), 1, if *op == COp::LookupA { &a } else { &b }) {
                            Ok(e) => {
                                ids.push(e.inode);
                                last = Some(e.inode);
                                owned += 1;
                            }
                            Err(e) => errs.push(format!("lookup: {}", e)),
                        },
                        COp::Forget(k) => {
                            let k = *k as i64;
                            if owned >= k && k > 0 {
                                if let Some(id) = last {
                                    fs.forget(&ctx(), id, k as u64);
                                    owned -= k;
                                }
                            }
                        }
                        COp::ReaddirPlus => {
                            // handle-less listing is not available without no_opendir: open, list, release
                            match fs.opendir(&ctx(), 1, libc::O_RDONLY as u32) {
                                Ok((Some(h), _)) => {
                                    let mut got: Vec<u64> = vec![];
                                    let r = fs.readdirplus(&ctx(), 1, h, 4096, 0, &mut |_d: DirEntry, e: Entry| {
                                        got.push(e.inode);
                                        Ok(1)
                                    });
                                    if let Err(e) = r {
                                        errs.push(format!("readdirplus: {}", e));
                                    }
                                    for id in got {
                                        ids.push(id);
                                        last = Some(id);
                                        owned += 1;
                                    }
                                    let _ = fs.releasedir(&ctx(), 1, 0, h);
                                }
                                Ok((None, _)) => {}
                                Err(e) => errs.push(format!("opendir: {}", e)),
                            }
                        }
                        COp::Getattr => {
                            if owned > 0 {
                                if let Some(id) = last {
                                    if let Err(e) = fs.getattr(&ctx(), id, None) {
                                        errs.push(format!("getattr({}) while holding {} references: {}", id, owned, e));
                                    }
                                }
                            }
                        }
                    }
                }
                (ids, owned, errs)
            }));
            finish();
            match r {
                Ok((ids, owned, errs)) => results.lock().unwrap().push((tid, ids, owned, errs)),
                Err(_) => results.lock().unwrap().push((tid, vec![], -1, vec!["thread aborted (livelock)".into()])),
            }
        }));
    }
    for t in threads {
        let _ = t.join();
    }
    verif::set_yield_hook(None);
    *SHARED.lock().unwrap() = None;
    let (branching, switches, livelock) = {
        let g = sh.m.lock().unwrap();
        (g.branching.clone(), g.switches, g.livelock)
    };
    if livelock {
        fails.push(Fail::new("conc/livelock", "an operation did not finish within 3000 scheduling steps (spinning on an entry that is never removed?)"));
        return RunResult { fails, branching, switches };
    }
    // oracle: some sequential order explains the outcome
    let res = results.lock().unwrap().clone();
    let mut all_ids: Vec<u64> = base_id.into_iter().collect();
    let mut expected: i64 = 0;
    for (tid, ids, owned, errs) in &res {
        for e in errs {
            fails.push(Fail::new(if e.starts_with("getattr") { "conc/reference-lost-while-held" } else { "conc/op-failed" }, format!("thread {}: {}", tid, e)));
        }
        all_ids.extend(ids.iter().copied());
        expected += owned;
    }
    all_ids.sort();
    all_ids.dedup();
    if all_ids.len() > 1 {
        fails.push(Fail::new("conc/two-numbers-for-one-file", format!("lookups of one file returned different inode numbers {:?}", all_ids)));
    }
    if let Some(id) = all_ids.first().copied() {
        // measure the final count: forget one at a time until the number stops resolving
        let mut measured: i64 = 0;
        for _ in 0..64 {
            if fs.getattr(&ctx(), id, None).is_err() {
                break;
            }
            fs.forget(&ctx(), id, 1);
            measured += 1;
        }
        if fails.is_empty() && measured != expected {
            fails.push(Fail::new(
                if measured < expected { "conc/reference-lost" } else { "conc/reference-leaked" },
                format!("final reference count is {} but lookups - forgets = {}", measured, expected),
            ));
        }
    }
    RunResult { fails, branching, switches }
}

pub fn run(cs: &Case) -> Outcome {
    let mut out = Outcome::default();
    let r = execute(cs);
    out.fails = r.fails;
    out.nontrivial = r.switches > cs.progs.len();
    out.class(format!("threads:{}", cs.progs.len()));
    if r.switches > cs.progs.len() {
        out.class("conc:switch-inside-operation");
    }
    out
}

fn prog_strategy() -> BoxedStrategy<Prog> {
    let op = prop_oneof![4 => Just(COp::LookupA), 2 => Just(COp::LookupB), 4 => (1u8..3).prop_map(COp::Forget), 1 => Just(COp::ReaddirPlus), 2 => Just(COp::Getattr)];
    (0u8..3, proptest::collection::vec(op, 1..4)).prop_map(|(init, ops)| Prog { init, ops }).boxed()
}

fn strategy() -> BoxedStrategy<Case> {
    (any::<bool>(), any::<bool>(), proptest::collection::vec(prog_strategy(), 2..4), proptest::collection::vec(0u8..3, 0..60))
        .prop_map(|(file_handles, use_host_ino, progs, schedule)| Case { file_handles, use_host_ino, progs, schedule })
        .boxed()
}

/// all schedules of one program set, by stateless depth-first re-execution
pub fn explore_all(base: &Case, e: &mut Enumerated, budget: u64) -> (u64, bool) {
    let mut choice: Vec<u8> = vec![];
    let mut runs = 0u64;
    loop {
        let mut cs = base.clone();
        cs.schedule = choice.clone();
        let r = execute(&cs);
        runs += 1;
        let nt = r.switches > cs.progs.len();
        if !r.fails.is_empty() {
            e.item(serde_json::to_value(&cs).unwrap(), "schedule:enumerated", nt, r.fails);
            return (runs, false);
        }
        if runs % 64 == 1 {
            e.item(serde_json::to_value(&cs).unwrap(), "schedule:enumerated", nt, vec![]);
        } else {
            e.res.evaluations += 1;
            *e.res.classes.entry("schedule:enumerated".into()).or_insert(0) += 1;
            if nt {
                e.res.keys.push(fnv(format!("{:?}{:?}", cs.progs, r.branching.iter().zip(choice.iter().chain(std::iter::repeat(&0))).map(|(_, c)| *c).collect::<Vec<_>>()).as_bytes()));
            }
        }
        // next schedule: increment the last position that has an untried alternative
        let b = r.branching;
        let mut v: Vec<u8> = (0..b.len()).map(|i| choice.get(i).copied().unwrap_or(0) % b[i].max(1)).collect();
        let mut i = v.len();
        loop {
            if i == 0 {
                return (runs, true);
            }
            i -= 1;
            if v[i] + 1 < b[i] {
                v[i] += 1;
                v.truncate(i + 1);
                break;
            }
        }
        choice = v;
        if runs >= budget {
            return (runs, false);
        }
    }
}

fn bounded_program_sets() -> Vec<Vec<Prog>> {
    // (2 threads x up to 2 ops) and (3 threads x 1 op) over {LookupA, LookupB, Forget(1)}
    let ops = [COp::LookupA, COp::LookupB, COp::Forget(1)];
    let mut sets = vec![];
    let mut progs1: Vec<Vec<COp>> = ops.iter().map(|o| vec![o.clone()]).collect();
    let mut progs2 = vec![];
    for a in &ops {
        for b in &ops {
            progs2.push(vec![a.clone(), b.clone()]);
        }
    }
    progs1.extend(progs2);
    for (i, p) in progs1.iter().enumerate() {
        for q in progs1.iter().skip(i) {
            for init in 0..2u8 {
                sets.push(vec![Prog { init, ops: p.clone() }, Prog { init: 1, ops: q.clone() }]);
            }
        }
    }
    for a in &ops {
        for b in &ops {
            for c in &ops {
                sets.push(vec![Prog { init: 1, ops: vec![a.clone()] }, Prog { init: 1, ops: vec![b.clone()] }, Prog { init: 0, ops: vec![c.clone()] }]);
            }
        }
    }
    sets
}

pub struct C09;

impl Prop for C09 {
    fn id(&self) -> &'static str {
        "C09"
    }
    fn meta(&self) -> Meta {
        Meta {
            rule: "2-3 threads with 1-3 operations each from {lookup(dir,'a'), lookup(dir,'b') (hard link to the same file), forget(1|2) of references the thread holds, readdirplus(dir), getattr} on a fresh PassthroughFs ({inode_file_handles} x {use_host_ino}), executed under a generated schedule: cfg-guarded yield points (before the first probe, after a probe hit, between the count load and the compare-exchange, before taking the write lock, before forget's write lock) park the thread and the case decides who runs next; quick: random schedules; thorough: ALL schedules (stateless DFS by re-execution) of every program set with 2 threads x <= 2 ops and 3 threads x 1 op over {lookupA, lookupB, forget(1)}, plus random schedules of larger programs; oracle: all lookups return one number, final count (measured by forgetting one at a time until EBADF) == initial + lookups - forgets, a held reference always answers getattr, no livelock within 3000 steps; non-trivial = a context switch inside an operation; distinct = distinct (programs, schedule)",
            assumptions: vec![
                "interleavings at the granularity of the hook points under sequentially consistent execution; weak-memory reorderings are not explored".into(),
                "yield points sit outside critical sections, so a parked thread never holds a lock".into(),
            ],
            workers_quick: 8,
            ..Meta::default()
        }
    }
    fn worker(&self, w: &WorkerCtx) -> WorkerResult {
        sys::enter();
        let n = w.share(w.tier.pick(16_000, 300_000));
        let mut r = drive(w, "C09", "schedule", n, strategy(), run);
        // exhaustive part: the bounded program sets are split over the workers
        let sets = bounded_program_sets();
        let mut e = Enumerated::new(w, "C09", "schedule");
        let mut complete = true;
        let take = w.tier.pick(3usize, usize::MAX);
        let mut done_sets = 0u64;
        for (i, progs) in sets.iter().enumerate() {
            if i % w.n != w.idx {
                continue;
            }
            if done_sets as usize >= take {
                complete = false;
                break;
            }
            for (fh, hi) in [(false, false), (true, true)] {
                let base = Case { file_handles: fh, use_host_ino: hi, progs: progs.clone(), schedule: vec![] };
                let (_runs, all) = explore_all(&base, &mut e, w.tier.pick(800, 150_000));
                complete &= all;
                if e.res.violation.is_some() {
                    break;
                }
            }
            done_sets += 1;
            if e.res.violation.is_some() {
                break;
            }
        }
        e.res.extra.insert("program_sets_enumerated".into(), serde_json::json!(done_sets));
        if complete && w.tier == Tier::Thorough {
            e.res.exhaustive_parts.push("all schedules of the bounded program sets (2 threads x <=2 ops, 3 threads x 1 op)".into());
        }
        r.merge(e.res);
        r
    }
    fn replay(&self, _kind: &str, case: &Value) -> Vec<Fail> {
        sys::enter();
        run(&serde_json::from_value(case.clone()).expect("case")).fails
    }
}
