//! C06 — nothing outside the exported directory is reachable; names are single components.
use crate::codec::{c, get, ssize};
use crate::engine::*;
use crate::jail as sys;
use crate::ptdrv::*;
use crate::vfsdrv::{call, mkreq, Rep, TreeFs, TreeSpec, VfsWorld, NodeSpec};
use fuse_backend_rs::api::filesystem::FileSystem;
use fuse_backend_rs::api::server::Server;
use fuse_backend_rs::api::VfsOptions;
use fuse_backend_rs::passthrough::PassthroughFs;
use proptest::prelude::*;
use serde::{Deserialize, Serialize};
use serde_json::Value;
use std::collections::{BTreeMap, BTreeSet};
use std::sync::Arc;

pub const MAGIC: &str = "SENTINEL-MAGIC-7f3a";

/// names a client may send: 0..ADV are adversarial, the rest are ordinary / symlink names of the export
pub const NAMES: &[&str] = &[
    ".", "..", "", "a/b", "/", "/outside", "../outside", "..//", "a/../..", "./a", "x/", "../secret", "d/../../outside/file", "lnk_out/file",
    "a", "b", "d", "sub", "lnk_out", "lnk_file", "lnk_rel", "lnk_up", "lnk_proc", "lnk_chain", "new1", "new2", "moved", "lnk_dangle", "lnk_dangle_rel",
];
pub const ADV: usize = 14;
pub const TARGETS: &[&str] = &["/outside", "/outside/file", "../outside", "../../..", "/proc/self/root", "/secret", "../outside/file", "a", "/", "lnk_out", "/outside/dropped3", "../outside/dropped4"];
/// open flags of CREATE requests
pub const CREATE_FLAGS: &[i32] = &[libc::O_RDWR | libc::O_TRUNC, libc::O_RDWR, libc::O_WRONLY, libc::O_RDWR | libc::O_EXCL, libc::O_WRONLY | libc::O_APPEND, libc::O_RDONLY];

#[derive(Clone, Debug, Serialize, Deserialize, PartialEq)]
pub enum Variant {
    Standalone { file_handles: bool },
    VfsPassthrough,
    VfsMock,
    /// zero-message open negotiated (cache=always): the client does I/O with fh 0
    StandaloneNoOpen { file_handles: bool },
    VfsPassthroughNoOpen,
}

#[derive(Clone, Debug, Serialize, Deserialize, PartialEq)]
pub enum EOp {
    Lookup(u16, u8),
    Walk(Vec<u8>),
    Getattr(u16),
    Readlink(u16),
    Open(u16, u32),
    Read(u16),
    Write(u16),
    Create(u16, u8),
    /// CREATE with a chosen flag word (index into CREATE_FLAGS)
    CreateF(u16, u8, u8),
    Mkdir(u16, u8),
    Mknod(u16, u8),
    Symlink(u16, u8, u8),
    Link(u16, u16, u8),
    Unlink(u16, u8),
    Rmdir(u16, u8),
    Rename(u16, u8, u16, u8, u8),
    Chmod(u16, u32),
    Chown(u16),
    Truncate(u16),
    Utimens(u16),
    Setxattr(u16),
    Getxattr(u16),
    Removexattr(u16),
    Listdir(u16, bool),
    /// look up ".." repeatedly from a held directory (after it or an ancestor was renamed)
    DotDotChain(u16, u8),
}

#[derive(Clone, Debug, Serialize, Deserialize, PartialEq)]
pub struct Case {
    pub variant: Variant,
    pub ops: Vec<EOp>,
}

fn build_world() {
    for d in ["/export", "/outside", "/secret"] {
        sys::rm_rf(d);
    }
    std::fs::create_dir_all("/outside/dir").unwrap();
    std::fs::write("/outside/file", format!("{}-outside-file", MAGIC)).unwrap();
    std::fs::write("/outside/dir/inner", format!("{}-inner", MAGIC)).unwrap();
    let _ = sys::symlinkat(b"file", libc::AT_FDCWD, b"/outside/link");
    std::fs::write("/secret", format!("{}-secret", MAGIC)).unwrap();
    let _ = sys::lsetxattr(b"/outside/file", b"user.tag", MAGIC.as_bytes(), 0);
    for p in ["/outside", "/outside/dir", "/outside/file", "/outside/dir/inner", "/secret"] {
        let _ = sys::chmod_path(p.as_bytes(), if p.ends_with("dir") || p == "/outside" { 0o755 } else { 0o644 });
    }
    std::fs::create_dir_all("/export/d/sub").unwrap();
    std::fs::write("/export/a", b"export-a").unwrap();
    std::fs::write("/export/b", b"export-b").unwrap();
    std::fs::write("/export/d/a", b"export-d-a").unwrap();
    // the last two dangle: their targets do not exist (yet) outside the export
    for (n, t) in [("lnk_out", "/outside"), ("lnk_file", "/outside/file"), ("lnk_rel", "../outside"), ("lnk_up", "../../.."), ("lnk_proc", "/proc/self/root"), ("lnk_chain", "lnk_out"), ("lnk_dangle", "/outside/dropped"), ("lnk_dangle_rel", "../../outside/dropped2")] {
        let _ = sys::symlinkat(t.as_bytes(), libc::AT_FDCWD, format!("/export/{}", n).as_bytes());
        let _ = sys::symlinkat(t.as_bytes(), libc::AT_FDCWD, format!("/export/d/{}", n).as_bytes());
    }
    let _ = sys::chmod_path(b"/export", 0o777);
}

fn sentinel() -> (BTreeMap<String, String>, BTreeSet<u64>) {
    let mut snap = BTreeMap::new();
    let mut inos = BTreeSet::new();
    for root in ["/outside", "/secret"] {
        for (k, v) in sys::snapshot(root, true) {
            // remember inode numbers and add mtime
            let full = format!("{}{}", root, if k == "/" { "".to_string() } else { k.clone() });
            if let Ok(st) = sys::lstat(&full) {
                inos.insert(st.st_ino);
                snap.insert(full, format!("{} mtime={}.{}", v, st.st_mtime, st.st_mtime_nsec));
            }
        }
    }
    (snap, inos)
}

struct Client<'a, F: FileSystem + Sync> {
    srv: &'a Server<F>,
    nodes: Vec<(u64, u32)>, // nodeid, ifmt
    handles: Vec<(u64, u64)>,
    sent_inos: BTreeSet<u64>,
    check_ino: bool,
    root_ino: u64,
    backend_log: Option<crate::vfsdrv::Log>,
    adversarial_reached: u32,
}

fn nm(i: u8) -> &'static str {
    NAMES[i as usize % NAMES.len()]
}
fn is_adv(name: &str) -> bool {
    name.contains('/') || name == "." || name == ".."
}

impl<'a, F: FileSystem + Sync> Client<'a, F> {
    fn node(&self, s: u16) -> (u64, u32) {
        self.nodes[pick_idx(s, self.nodes.len())]
    }
    fn scan_reply(&mut self, out: &mut Outcome, what: &str, rep: &Rep, entry_at: Option<usize>, is_attr: bool) {
        if rep.error != 0 {
            return;
        }
        // (2) sentinel inode numbers / magic content must never appear
        if let Some(at) = entry_at {
            if let Some((id, a)) = entry_of(rep, at) {
                if self.check_ino && self.sent_inos.contains(&a.ino) {
                    out.fail(format!("esc/{}/outside-attributes", what), format!("{} returned the attributes of an object outside the export (inode {})", what, a.ino));
                }
                if id != 0 && !self.nodes.iter().any(|n| n.0 == id) {
                    self.nodes.push((id, a.mode & libc::S_IFMT));
                }
            }
        }
        if is_attr {
            if let Some(a) = attr_of(rep) {
                if self.check_ino && self.sent_inos.contains(&a.ino) {
                    out.fail(format!("esc/{}/outside-attributes", what), format!("{} returned the attributes of an object outside the export (inode {})", what, a.ino));
                }
            }
        }
        if rep.body.windows(MAGIC.len()).any(|w| w == MAGIC.as_bytes()) {
            out.fail(format!("esc/{}/outside-data", what), format!("{} returned data of an object outside the export", what));
        }
    }
    fn take_backend_log(&self) -> usize {
        match &self.backend_log {
            Some(l) => std::mem::take(&mut *l.lock().unwrap()).len(),
            None => 0,
        }
    }
    /// name-taking mutators: adversarial names must be refused before any backend is touched
    fn name_op(&mut self, out: &mut Outcome, what: &str, req: crate::reqgen::Req, names: &[&str], entry: bool, lookup: bool) {
        let adv = if lookup { names.iter().any(|n| n.contains('/')) } else { names.iter().any(|n| is_adv(n)) };
        self.take_backend_log();
        let rep = call(self.srv, &req);
        let reached = self.take_backend_log();
        if adv {
            self.adversarial_reached += 1;
            if rep.error == 0 {
                out.fail(format!("esc/{}/bad-name-accepted", what), format!("{} with name(s) {:?} was answered Ok", what, names));
            }
            if reached > 0 {
                out.fail(format!("esc/{}/bad-name-reached-backend", what), format!("{} with name(s) {:?} reached a backend", what, names));
            }
        }
        self.scan_reply(out, what, &rep, if entry { Some(0) } else { None }, false);
    }
}

fn apply<F: FileSystem + Sync>(cl: &mut Client<F>, out: &mut Outcome, op: &EOp) {
    match op {
        EOp::Lookup(p, n) => {
            let (p, _) = cl.node(*p);
            let name = nm(*n);
            cl.name_op(out, "lookup", mkreq("LOOKUP", p, 0, 0, &[], &[name.as_bytes()], &[]), &[name], true, true);
        }
        EOp::Walk(v) => {
            let mut cur = 1u64;
            for n in v {
                let name = nm(*n);
                let rep = call(cl.srv, &mkreq("LOOKUP", cur, 0, 0, &[], &[name.as_bytes()], &[]));
                if name.contains('/') && rep.error == 0 {
                    out.fail("esc/lookup/bad-name-accepted", format!("lookup of {:?} succeeded", name));
                }
                cl.scan_reply(out, "lookup", &rep, Some(0), false);
                match entry_of(&rep, 0) {
                    Some((id, _)) if id != 0 => cur = id,
                    _ => break,
                }
            }
        }
        EOp::Getattr(n) => {
            let (id, _) = cl.node(*n);
            let rep = call(cl.srv, &mkreq("GETATTR", id, 0, 0, &[], &[], &[]));
            cl.scan_reply(out, "getattr", &rep, None, true);
        }
        EOp::Readlink(n) => {
            let (id, _) = cl.node(*n);
            let rep = call(cl.srv, &mkreq("READLINK", id, 0, 0, &[], &[], &[]));
            // the target text of a link inside the export is not sentinel content
            let _ = rep;
        }
        EOp::Open(n, flags) => {
            let (id, ifmt) = cl.node(*n);
            let rep = call(cl.srv, &mkreq("OPEN", id, 0, 0, &[("flags", *flags as u64)], &[], &[]));
            if rep.error == 0 {
                if ifmt == libc::S_IFLNK && cl.backend_log.is_none() {
                    out.fail("esc/open/symlink-followed", "OPEN on a symbolic link inode succeeded");
                }
                cl.handles.push((get(&rep.body, 0, "fuse_open_out", "fh"), id));
            } else if rep.error == -libc::ENOSYS && ifmt == libc::S_IFREG {
                // zero-message open: the client goes on with fh 0
                cl.handles.push((0, id));
            }
        }
        EOp::Read(h) => {
            if cl.handles.is_empty() {
                return;
            }
            let (fh, id) = cl.handles[pick_idx(*h, cl.handles.len())];
            let rep = call(cl.srv, &mkreq("READ", id, 0, 0, &[("fh", fh), ("offset", 0), ("size", 4096)], &[], &[]));
            cl.scan_reply(out, "read", &rep, None, false);
        }
        EOp::Write(h) => {
            if cl.handles.is_empty() {
                return;
            }
            let (fh, id) = cl.handles[pick_idx(*h, cl.handles.len())];
            let _ = call(cl.srv, &mkreq("WRITE", id, 0, 0, &[("fh", fh), ("offset", 0), ("size", 5), ("flags", 2)], &[], b"XXXXX"));
        }
        EOp::Create(p, n) => {
            let (p, _) = cl.node(*p);
            let name = nm(*n);
            cl.name_op(out, "create", mkreq("CREATE", p, 0, 0, &[("flags", (libc::O_RDWR | libc::O_TRUNC) as u64), ("mode", 0o644)], &[name.as_bytes()], &[]), &[name], true, false);
        }
        EOp::CreateF(p, n, f) => {
            let (p, _) = cl.node(*p);
            let name = nm(*n);
            let flags = CREATE_FLAGS[*f as usize % CREATE_FLAGS.len()];
            cl.name_op(out, "create", mkreq("CREATE", p, 0, 0, &[("flags", flags as u64), ("mode", 0o644)], &[name.as_bytes()], &[]), &[name], true, false);
        }
        EOp::Mkdir(p, n) => {
            let (p, _) = cl.node(*p);
            let name = nm(*n);
            cl.name_op(out, "mkdir", mkreq("MKDIR", p, 0, 0, &[("mode", 0o755)], &[name.as_bytes()], &[]), &[name], true, false);
        }
        EOp::Mknod(p, n) => {
            let (p, _) = cl.node(*p);
            let name = nm(*n);
            cl.name_op(out, "mknod", mkreq("MKNOD", p, 0, 0, &[("mode", 0o100644)], &[name.as_bytes()], &[]), &[name], true, false);
        }
        EOp::Symlink(p, n, t) => {
            let (p, _) = cl.node(*p);
            let name = nm(*n);
            let tgt = TARGETS[*t as usize % TARGETS.len()];
            cl.name_op(out, "symlink", mkreq("SYMLINK", p, 0, 0, &[], &[name.as_bytes(), tgt.as_bytes()], &[]), &[name], true, false);
        }
        EOp::Link(n, p, name) => {
            let (id, _) = cl.node(*n);
            let (p, _) = cl.node(*p);
            let name = nm(*name);
            cl.name_op(out, "link", mkreq("LINK", p, 0, 0, &[("oldnodeid", id)], &[name.as_bytes()], &[]), &[name], true, false);
        }
        EOp::Unlink(p, n) => {
            let (p, _) = cl.node(*p);
            let name = nm(*n);
            cl.name_op(out, "unlink", mkreq("UNLINK", p, 0, 0, &[], &[name.as_bytes()], &[]), &[name], false, false);
        }
        EOp::Rmdir(p, n) => {
            let (p, _) = cl.node(*p);
            let name = nm(*n);
            cl.name_op(out, "rmdir", mkreq("RMDIR", p, 0, 0, &[], &[name.as_bytes()], &[]), &[name], false, false);
        }
        EOp::Rename(p1, n1, p2, n2, fl) => {
            let (a, _) = cl.node(*p1);
            let (b, _) = cl.node(*p2);
            let (x, y) = (nm(*n1), nm(*n2));
            let req = if fl % 3 == 0 {
                mkreq("RENAME", a, 0, 0, &[("newdir", b)], &[x.as_bytes(), y.as_bytes()], &[])
            } else {
                mkreq("RENAME2", a, 0, 0, &[("newdir", b), ("flags", (*fl % 3) as u64)], &[x.as_bytes(), y.as_bytes()], &[])
            };
            cl.name_op(out, "rename", req, &[x, y], false, false);
        }
        EOp::Chmod(n, m) => {
            let (id, _) = cl.node(*n);
            let rep = call(cl.srv, &mkreq("SETATTR", id, 0, 0, &[("valid", c("FATTR_MODE")), ("mode", (*m & 0o7777) as u64)], &[], &[]));
            cl.scan_reply(out, "setattr", &rep, None, true);
        }
        EOp::Chown(n) => {
            let (id, _) = cl.node(*n);
            let rep = call(cl.srv, &mkreq("SETATTR", id, 0, 0, &[("valid", c("FATTR_UID") | c("FATTR_GID")), ("uid", 4242), ("gid", 4242)], &[], &[]));
            cl.scan_reply(out, "setattr", &rep, None, true);
        }
        EOp::Truncate(n) => {
            let (id, _) = cl.node(*n);
            let rep = call(cl.srv, &mkreq("SETATTR", id, 0, 0, &[("valid", c("FATTR_SIZE")), ("size", 3)], &[], &[]));
            cl.scan_reply(out, "setattr", &rep, None, true);
        }
        EOp::Utimens(n) => {
            let (id, _) = cl.node(*n);
            let rep = call(cl.srv, &mkreq("SETATTR", id, 0, 0, &[("valid", c("FATTR_MTIME") | c("FATTR_ATIME")), ("mtime", 12345), ("atime", 12345)], &[], &[]));
            cl.scan_reply(out, "setattr", &rep, None, true);
        }
        EOp::Setxattr(n) => {
            let (id, _) = cl.node(*n);
            let _ = call(cl.srv, &mkreq("SETXATTR", id, 0, 0, &[("size", 3)], &[b"user.esc"], b"esc"));
        }
        EOp::Getxattr(n) => {
            let (id, _) = cl.node(*n);
            let rep = call(cl.srv, &mkreq("GETXATTR", id, 0, 0, &[("size", 256)], &[b"user.tag"], &[]));
            cl.scan_reply(out, "getxattr", &rep, None, false);
        }
        EOp::Removexattr(n) => {
            let (id, _) = cl.node(*n);
            let _ = call(cl.srv, &mkreq("REMOVEXATTR", id, 0, 0, &[], &[b"user.tag"], &[]));
        }
        EOp::Listdir(n, plus) => {
            let (id, ifmt) = cl.node(*n);
            if ifmt != libc::S_IFDIR && ifmt != 0 {
                // a directory listing of a symlink inode must not list the link's target
            }
            let o = call(cl.srv, &mkreq("OPENDIR", id, 0, 0, &[("flags", 0)], &[], &[]));
            let fh = if o.error == 0 { get(&o.body, 0, "fuse_open_out", "fh") } else { 0 };
            if o.error == 0 && ifmt == libc::S_IFLNK && cl.backend_log.is_none() {
                out.fail("esc/opendir/symlink-followed", "OPENDIR on a symbolic link inode succeeded");
            }
            let rep = call(cl.srv, &mkreq(if *plus { "READDIRPLUS" } else { "READDIR" }, id, 0, 0, &[("fh", fh), ("offset", 0), ("size", 16384)], &[], &[]));
            if rep.error == 0 {
                let esz = if *plus { ssize("fuse_entry_out") } else { 0 };
                let dsz = ssize("fuse_dirent");
                let mut pos = 0;
                while pos + esz + dsz <= rep.body.len() {
                    let namelen = get(&rep.body, pos + esz, "fuse_dirent", "namelen") as usize;
                    if pos + esz + dsz + namelen > rep.body.len() {
                        break;
                    }
                    let name = &rep.body[pos + esz + dsz..pos + esz + dsz + namelen];
                    if name == b"inner" || name == b"secret" || name == b"outside" {
                        out.fail("esc/readdir/outside-names", format!("directory listing shows {:?}, a name that only exists outside the export", String::from_utf8_lossy(name)));
                    }
                    if *plus {
                        let ino = get(&rep.body, pos, "fuse_entry_out", "attr.ino");
                        if cl.check_ino && cl.sent_inos.contains(&ino) {
                            out.fail("esc/readdirplus/outside-attributes", "readdirplus returned attributes of an outside object");
                        }
                        let id2 = get(&rep.body, pos, "fuse_entry_out", "nodeid");
                        if id2 != 0 && !cl.nodes.iter().any(|n| n.0 == id2) {
                            cl.nodes.push((id2, get(&rep.body, pos, "fuse_entry_out", "attr.mode") as u32 & libc::S_IFMT));
                        }
                    }
                    pos += esz + ((dsz + namelen + 7) & !7);
                }
            }
            if o.error == 0 {
                let _ = call(cl.srv, &mkreq("RELEASEDIR", id, 0, 0, &[("fh", fh)], &[], &[]));
            }
        }
        EOp::DotDotChain(n, k) => {
            let (mut cur, _) = cl.node(*n);
            for _ in 0..(*k % 6 + 1) {
                let rep = call(cl.srv, &mkreq("LOOKUP", cur, 0, 0, &[], &[b".."], &[]));
                cl.scan_reply(out, "lookup-dotdot", &rep, Some(0), false);
                match entry_of(&rep, 0) {
                    Some((id, a)) if id != 0 => {
                        if cur == 1 && cl.check_ino && a.ino != cl.root_ino {
                            out.fail("esc/lookup/dotdot-at-root", format!("\"..\" at the export root resolved to inode {} instead of the root itself ({})", a.ino, cl.root_ino));
                        }
                        cur = id;
                    }
                    _ => break,
                }
            }
        }
    }
}

fn run_with<F: FileSystem + Sync>(out: &mut Outcome, srv: &Server<F>, cs: &Case, check_ino: bool, backend_log: Option<crate::vfsdrv::Log>) {
    let (before, inos) = sentinel();
    let export_before = sys::snapshot("/export", false);
    let root_ino = sys::lstat("/export").map(|s| s.st_ino).unwrap_or(0);
    let mut cl = Client { srv, nodes: vec![(1, libc::S_IFDIR)], handles: vec![], sent_inos: inos, check_ino, root_ino, backend_log, adversarial_reached: 0 };
    // (3) ".." at the export root is the root
    let rep = call(srv, &mkreq("LOOKUP", 1, 0, 0, &[], &[b".."], &[]));
    if let Some((_, a)) = entry_of(&rep, 0) {
        if check_ino && a.ino != root_ino {
            out.fail("esc/lookup/dotdot-at-root", format!("\"..\" at the export root resolved to inode {} instead of the root ({})", a.ino, root_ino));
        }
    }
    cl.scan_reply(out, "lookup-dotdot", &rep, Some(0), false);
    let mut prev_export = export_before;
    for op in &cs.ops {
        let fails_before = out.fails.len();
        let adv_before = cl.adversarial_reached;
        apply(&mut cl, out, op);
        if cl.adversarial_reached > adv_before {
            // (4) a refused name leaves the export untouched
            let now = sys::snapshot("/export", false);
            if now != prev_export && cs.variant != Variant::VfsMock {
                out.fail("esc/bad-name-changed-export", format!("{:?} with an invalid name changed the exported tree", op));
            }
            prev_export = now;
        } else if cs.variant != Variant::VfsMock {
            prev_export = sys::snapshot("/export", false);
        }
        if out.fails.len() > fails_before {
            break;
        }
    }
    // (1) the world outside the export is exactly as it was
    let (after, _) = sentinel();
    if after != before {
        let mut d = vec![];
        for (k, v) in &before {
            match after.get(k) {
                Some(w) if w == v => {}
                Some(w) => d.push(format!("{}: [{}] -> [{}]", k, v, w)),
                None => d.push(format!("{} deleted", k)),
            }
        }
        for k in after.keys() {
            if !before.contains_key(k) {
                d.push(format!("{} created", k));
            }
        }
        d.truncate(3);
        out.fail("esc/outside-modified", format!("objects outside the export changed: {}", d.join("; ")));
    }
    out.nontrivial = cl.adversarial_reached > 0 || cl.nodes.iter().any(|n| n.1 == libc::S_IFLNK);
    if cl.adversarial_reached > 0 {
        out.class("esc:adversarial-name");
    }
    if cl.nodes.iter().any(|n| n.1 == libc::S_IFLNK) {
        out.class("esc:symlink-inode-held");
    }
}

pub fn run(cs: &Case) -> Outcome {
    let mut out = Outcome::default();
    build_world();
    match &cs.variant {
        Variant::Standalone { file_handles } | Variant::StandaloneNoOpen { file_handles } => {
            let no_open = matches!(cs.variant, Variant::StandaloneNoOpen { .. });
            out.class(if no_open { "variant:standalone+no_open" } else { "variant:standalone" });
            let cfg = PtCfg { file_handles: *file_handles, use_host_ino: false, no_open, cache: if no_open { 3 } else { 2 }, ..PtCfg::default() };
            let Some(pt) = Pt::new(&mut out, &cfg, "/export", "/export") else { return out };
            run_with(&mut out, &pt.srv, cs, true, None);
        }
        Variant::VfsPassthrough | Variant::VfsPassthroughNoOpen => {
            let no_open = matches!(cs.variant, Variant::VfsPassthroughNoOpen);
            out.class(if no_open { "variant:vfs+passthrough+no_open" } else { "variant:vfs+passthrough" });
            let mut o = VfsOptions::default();
            o.no_open = no_open;
            o.no_opendir = false;
            let w = VfsWorld::new(o);
            let fs = match PassthroughFs::<()>::new(config_of(&PtCfg::default(), "/export", false)) {
                Ok(f) => f,
                Err(e) => {
                    out.fail("pt/new", format!("{}", e));
                    return out;
                }
            };
            if fs.import().is_err() || w.vfs.mount(Box::new(fs), "/").is_err() {
                out.fail("pt/mount", "mount failed");
                return out;
            }
            w.init(FUSE_ALL);
            run_with(&mut out, &w.srv, cs, false, None);
        }
        Variant::VfsMock => {
            out.class("variant:vfs+mock");
            let mut o = VfsOptions::default();
            o.no_open = false;
            o.no_opendir = false;
            let w = VfsWorld::new(o);
            let spec = TreeSpec {
                root_ino: 1,
                root_uid: 0,
                root_gid: 0,
                children: vec![
                    NodeSpec { name: "a".into(), dir: false, uid: 0, gid: 0, children: vec![] },
                    NodeSpec { name: "d".into(), dir: true, uid: 0, gid: 0, children: vec![NodeSpec { name: "sub".into(), dir: true, uid: 0, gid: 0, children: vec![] }] },
                ],
            };
            if w.vfs.mount(Box::new(TreeFs::new(0, &spec, w.log.clone())), "/").is_err() {
                out.fail("pt/mount", "mount failed");
                return out;
            }
            w.init(FUSE_ALL);
            w.take_log();
            let log = w.log.clone();
            run_with(&mut out, &w.srv, cs, false, Some(log));
        }
    }
    let _ = Arc::new(0);
    out
}

fn strategy() -> BoxedStrategy<Case> {
    let name = prop_oneof![1 => 0u8..ADV as u8, 1 => ADV as u8..NAMES.len() as u8];
    let op = prop_oneof![
        8 => (any::<u16>(), name.clone()).prop_map(|(p, n)| EOp::Lookup(p, n)),
        4 => proptest::collection::vec(name.clone(), 1..5).prop_map(EOp::Walk),
        3 => any::<u16>().prop_map(EOp::Getattr),
        1 => any::<u16>().prop_map(EOp::Readlink),
        4 => (any::<u16>(), prop_oneof![Just(0u32), Just(2), Just((libc::O_RDWR | libc::O_TRUNC) as u32)]).prop_map(|(n, f)| EOp::Open(n, f)),
        2 => any::<u16>().prop_map(EOp::Read),
        2 => any::<u16>().prop_map(EOp::Write),
        2 => (any::<u16>(), name.clone()).prop_map(|(p, n)| EOp::Create(p, n)),
        4 => (any::<u16>(), name.clone(), 0u8..CREATE_FLAGS.len() as u8).prop_map(|(p, n, f)| EOp::CreateF(p, n, f)),
        3 => (any::<u16>(), name.clone()).prop_map(|(p, n)| EOp::Mkdir(p, n)),
        2 => (any::<u16>(), name.clone()).prop_map(|(p, n)| EOp::Mknod(p, n)),
        4 => (any::<u16>(), name.clone(), any::<u8>()).prop_map(|(p, n, t)| EOp::Symlink(p, n, t)),
        3 => (any::<u16>(), any::<u16>(), name.clone()).prop_map(|(n, p, nm)| EOp::Link(n, p, nm)),
        3 => (any::<u16>(), name.clone()).prop_map(|(p, n)| EOp::Unlink(p, n)),
        2 => (any::<u16>(), name.clone()).prop_map(|(p, n)| EOp::Rmdir(p, n)),
        5 => (any::<u16>(), name.clone(), any::<u16>(), name, any::<u8>()).prop_map(|(a, b, c, d, e)| EOp::Rename(a, b, c, d, e)),
        2 => (any::<u16>(), any::<u32>()).prop_map(|(n, m)| EOp::Chmod(n, m)),
        2 => any::<u16>().prop_map(EOp::Chown),
        2 => any::<u16>().prop_map(EOp::Truncate),
        2 => any::<u16>().prop_map(EOp::Utimens),
        2 => any::<u16>().prop_map(EOp::Setxattr),
        2 => any::<u16>().prop_map(EOp::Getxattr),
        1 => any::<u16>().prop_map(EOp::Removexattr),
        2 => (any::<u16>(), any::<bool>()).prop_map(|(n, p)| EOp::Listdir(n, p)),
        3 => (any::<u16>(), any::<u8>()).prop_map(|(n, k)| EOp::DotDotChain(n, k)),
    ];
    (
        prop_oneof![
            3 => any::<bool>().prop_map(|file_handles| Variant::Standalone { file_handles }),
            2 => Just(Variant::VfsPassthrough),
            1 => Just(Variant::VfsMock),
            2 => any::<bool>().prop_map(|file_handles| Variant::StandaloneNoOpen { file_handles }),
            1 => Just(Variant::VfsPassthroughNoOpen),
        ],
        proptest::collection::vec(op, 1..40),
    )
        .prop_map(|(variant, ops)| Case { variant, ops })
        .boxed()
}

pub struct C06;

impl Prop for C06 {
    fn id(&self) -> &'static str {
        "C06"
    }
    fn meta(&self) -> Meta {
        Meta {
            rule: "jail with a sentinel world (/outside tree, /secret, each file carrying a magic string and a user xattr) around /export, whose initial tree contains symlinks to /outside, /outside/file, ../outside, ../../.., /proc/self/root and a link chain, at two depths; histories (1..40 ops) of every name-taking and attribute/data operation with names drawn 50% from {'.', '..', '', 'a/b', '/', '/outside', '../outside', '..//', 'a/../..', './a', 'x/', '../secret', ...}, symlinks with hostile targets created through the server, renames of held directories followed by '..' chains, setattr/xattr/open/read/write/listing on symlink inodes; three variants: standalone passthrough (+file handles), Vfs in front of passthrough, Vfs in front of a scripted backend; oracle: sentinel snapshot (names, types, modes, owners, sizes, content hashes, xattrs, link targets, mtime, inode numbers) unchanged, no reply carries a sentinel inode number or magic string or outside-only name, '..' at the root is the root, names with '/' (lookup) and '/', '.', '..' (all mutators) are refused, leave the export untouched and reach no backend, OPEN/OPENDIR of a symlink inode refused; non-trivial = an adversarial name reached a name check or a symlink inode was held; distinct = distinct serialized case",
            assumptions: vec![
                "runs as root inside a mount-namespace + chroot jail: a successful escape can only reach the jail".into(),
                "READLINK of a link inside the export legitimately returns its target text".into(),
                "inode-number comparison needs the standalone variant (the VFS rewrites st_ino)".into(),
            ],
            ..Meta::default()
        }
    }
    fn worker(&self, w: &WorkerCtx) -> WorkerResult {
        sys::enter();
        let n = w.share(w.tier.pick(10_000, 300_000));
        drive(w, "C06", "history", n, strategy(), run)
    }
    fn replay(&self, _kind: &str, case: &Value) -> Vec<Fail> {
        sys::enter();
        run(&serde_json::from_value(case.clone()).expect("case")).fails
    }
}
