pub mod c02;
pub mod c03;
use crate::engine::Prop;
pub fn all() -> Vec<Box<dyn Prop>> {
    vec![Box::new(c02::C02), Box::new(c03::C03)]
}
