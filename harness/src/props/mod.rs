pub mod c02;
use crate::engine::Prop;
pub fn all() -> Vec<Box<dyn Prop>> {
    vec![Box::new(c02::C02)]
}
