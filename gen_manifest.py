#!/usr/bin/env python3
"""Writes MANIFEST.json from the table below (kept in one place so it stays valid)."""
import json, subprocess
ALL = ["C%02d" % i for i in range(1, 21)]
CHECKS = {
 "C02": dict(
   level="exploration",
   text="Generated search: every opcode x boundary/random valuations of every wire field (encoded through the kernel's own struct layouts) is served by Server<Arc<MockFs>> over both transports and the logged FileSystem call is compared with a protocol-level oracle table; a wrong method, swapped/dropped argument or missing flag test shows as a mismatch. Exploration is the right level: the domain is a huge product of field values with no finite abstraction the tools here could exhaust.",
   design="3/C02",
   note="Trusts /usr/include/linux/fuse.h (7.38) for layouts and the hand-written oracle table in harness/src/reqgen.rs; SETXATTR in 8-byte compat layout; RENAME2 flags within the defined bits.",
   technique="property-based testing (proptest): structured request generator + call-log oracle, shrinking to a replay file"),
}
hooks_commits = []
try:
    out = subprocess.run(["git","-C","/repo","log","--format=%h %s"],capture_output=True,text=True).stdout
    hooks_commits = [l.split()[0] for l in out.splitlines() if l.split(' ',1)[1].startswith("verif-hook:")]
except Exception:
    pass
m = {
 "version": 1,
 "setup_cmd": "cd /verif && mkdir -p abi/out && gcc -O0 -o abi/out/probe abi/probe.c && ./abi/out/probe > abi/out/layout.json && cd harness && CARGO_NET_OFFLINE=true cargo build --release --offline",
 "hooks": {
   "guard": "--cfg fuse_backend_rs_verif",
   "enable": "harness/.cargo/config.toml sets rustflags = [\"--cfg\", \"fuse_backend_rs_verif\"]; every check builds /repo through the harness crate's path dependency",
   "baseline_off_cmd": "cd /repo && cargo test --workspace --no-fail-fast --offline",
   "source_commits": hooks_commits,
   "add_only": True,
 },
 "engines": [
   {"name": "fbv", "path": "harness", "serves_properties": sorted(CHECKS.keys()),
    "kind_free_text": "Rust binary: proptest TestRunner driven from main(), worker fan-out over processes, kernel-header-derived wire codec, SEQPACKET /dev/fuse stand-in, hand-built virtio chains, scripted file systems"},
 ],
 "checks": [],
 "not_applicable": [],
 "notes": "All checks: ./check <ID> quick|thorough; exit 0 held, 1 VIOLATION, 2 inconclusive. VERIF_SEED selects the PRNG stream. Known findings: known_findings.json.",
}
for pid in ALL:
    if pid in CHECKS:
        c = CHECKS[pid]
        m["checks"].append({
          "property_id": pid,
          "quick_cmd": "./check %s quick" % pid,
          "thorough_cmd": "./check %s thorough" % pid,
          "evidence_file": "evidence/%s.json" % pid,
          "replay_cmd_template": "./check %s --replay {path}" % pid,
          "engine": "fbv",
          "level_claimed": {"category": c["level"], "text": c["text"], "design_ref": c["design"]},
          "level_note": c["note"],
          "technique": c["technique"],
        })
    else:
        m["not_applicable"].append({"property_id": pid, "reason": "check not built yet in this round (planned with the same technique, see DESIGN.md section 3)"})
json.dump(m, open("/verif/MANIFEST.json","w"), indent=1)
print("checks:", len(m["checks"]), "n/a:", len(m["not_applicable"]))
