#!/usr/bin/env python3
"""Writes MANIFEST.json from the table below (kept in one place so it stays valid)."""
import json, subprocess
ALL = ["C%02d" % i for i in range(1, 21)]
CHECKS = {
 "C01": dict(level="exploration",
   text="Generated search over hostile request bytes (well-formed requests of all 47 opcodes, stacked mutations: length lies, opcode holes, truncation, junk, extreme u32 at any body offset, missing NULs; and random bytes) x reply capacities x both transports x scripted filesystem results. Oracle inside the case: no panic (catch_unwind), canary frames around every buffer intact, at most one reply, every reply complete (len, unique, errno range, one datagram = one write call on the SEQPACKET /dev/fuse stand-in), FORGET/BATCH_FORGET never answered, well-formed answer-requiring requests answered exactly once. Exploration: the input space is all byte strings.",
   design="3/C01", note="In-process catch_unwind + canary frames (no sanitizer in the quick tier); one SEQPACKET datagram == one write call; sound scripted filesystem.",
   technique="property-based testing (proptest) with grammar+mutation+random generators, shrinking to a replay file; thorough adds coverage-guided fuzzing (libFuzzer/ASan byte target c01_msg) with the same oracle in-target"),
 "C03": dict(level="exploration",
   text="Generated search: opcode x scripted filesystem result (every stat field, timeouts, flags, handles, payloads, xattr value/count, locks, statfs, dirent lists with names of every length mod 8 and requested sizes, every errno, non-OS error kinds) served over both transports; the reply is decoded with the kernel's struct layouts and compared field by field with what the filesystem returned; directory replies are re-parsed record by record; notifications checked likewise.",
   design="3/C03", note="Kernel header 7.38 + supplement for backing_id; canonical errno required only for 5 error kinds; pre-7.9 layouts not claimed.",
   technique="property-based testing (proptest): result generator + kernel-layout decoder oracle, metamorphic equality of fuse_entry_out across entry-carrying replies; thorough adds coverage-guided fuzzing (libFuzzer/ASan, JSON case recombination mutator, target c03_encode)"),
 "C04": dict(level="exploration",
   text="Stateful model-based testing of Reader/Writer over a /dev/fuse buffer and random virtio descriptor chains (segment lengths 0/1/page+-1, 3 regions, gaps, indirect tables): op sequences incl. nested splits and splits after partial consumption are interpreted against a flat byte-vector model; after every op returned bytes, file contents and available/consumed counters are compared, over-capacity ops must fail without effect, final buffer/guest memory and datagrams must equal the model, canaries intact. FileVolatileSlice (Bytes<usize>) and File vectored I/O are compared with a Vec<u8> model.",
   design="3/C04", note="Unsplit /dev/fuse writer is written once (documented contract); cursor re-synchronised after a failed read_exact; canaries instead of a sanitizer.",
   technique="stateful property-based testing (proptest, vec(op) + interpreter) against a reference byte-stream model; thorough adds coverage-guided fuzzing (libFuzzer/ASan byte target c04_rw) of op programs with the same model in-target"),
 "C07": dict(level="exploration",
   text="Model-based testing of the VFS: histories of mount/over-mount/umount (incl. >255 mounts for index wrap-around and root mounts), LOOKUP walks, every forwarded request kind, stale-inode probes, cross-mount rename/link and consistency probes run against a Vfs with scripted tree backends; a model client_ino -> (mount, backend inode), learned from replies joined with backend call logs, decides that each request reaches exactly the owning backend with its own inode number and nobody else.",
   design="3/C07", note="Backends number entries consistently; stale numbers whose 8-bit slot was re-used are not claimed.",
   technique="stateful property-based testing (proptest) with an encoding-agnostic routing model and backend call logs; thorough adds coverage-guided fuzzing of histories (libFuzzer/ASan, JSON case recombination mutator, target c07_vfs)"),
 "C13": dict(level="exploration",
   text="Enumerates every obligation of the ABI table: struct sizes, each named field's offset and width (Rust offset_of!/size_of vs the C compiler's offsetof/sizeof on linux/fuse.h), coverage of kernel fields, every opcode/notify/flag constant; Opcode::from is checked over u32 ranges (thorough: all 2^32 values); stat/statvfs/setattr conversions are checked on generated values incl. round trip. The finite tables are enumerated completely (exhaustive_parts in the evidence).",
   design="3/C13", note="Trusted base: installed kernel header 7.38 + 3-item supplement; committed Rust<->C name map.",
   technique="differential enumeration against a C probe + property-based testing (proptest) of conversions"),
 "C14": dict(level="exploration",
   text="Same interpreter as C07 with global and per-mount id mappings (disjoint, adjacent, overlapping, size-1, near u32::MAX) on most mounts: an arithmetic model decides, per serving mount, the caller ids and owner-ids-to-set the backend must see and every owner id the client must see (lookup, getattr, setattr, create, mkdir, mknod, symlink, readdirplus, mount roots), applied exactly once, incl. slot reuse after over-mount and index wrap-around and requests on the root node with a backend mounted at /.",
   design="3/C14", note="Valid mapping configurations only (base+range <= 2^32); mount-root attributes are those cached at mount time.",
   technique="stateful property-based testing (proptest) with an arithmetic id-mapping model and backend call logs; thorough adds coverage-guided fuzzing of histories (libFuzzer/ASan, JSON case recombination mutator, target c07_vfs)"),
 "C17": dict(level="exploration",
   text="Guest memory with an AtomicBitmap: (a) C04's writer/reader op sequences over random chains at arbitrary page offsets, (b) whole requests through handle_message (READ via write/write_from/both/partial-then-error, READDIR(PLUS), GETXATTR, LOOKUP, error and oversize replies). Oracle: dirty page set == pages intersecting the modelled written ranges (both directions), model cross-checked by a byte diff of guest memory.",
   design="3/C17", note="4 KiB bitmap pages; written ranges for requests = reply message plus the bytes the filesystem produced.",
   technique="property-based testing (proptest) with a written-range model vs the dirty bitmap; thorough adds coverage-guided fuzzing (libFuzzer/ASan, JSON case recombination mutator, target c17_dirty)"),
 "C12": dict(level="exploration",
   text="Generated INIT requests (major, minor, flag words with/without the extended marker, extended payload present/absent/truncated) x filesystem option words against Server<MockFs>; the reply is decoded exactly as a Linux client decodes it (flags2 only with FUSE_INIT_EXT) and must equal capable & want, be laid out for the client's minor, follow the major-version rules and advertise write limits that fit the transport buffers. Layer level: Vfs (and, from the jail, PassthroughFs) with every configuration switch: advertised bits, backend-visible bits and behaviour (OPEN/OPENDIR ENOSYS iff negotiated), second INIT refused, DESTROY+INIT applies the new capabilities.",
   design="3/C12", note="capable = announced bits restricted to FsOptions::all(); pre-7.23 reply layouts compare the low 32 bits only.",
   technique="property-based testing (proptest): INIT generator + client-side decoder oracle + behavioural probes; thorough adds coverage-guided fuzzing (libFuzzer/ASan, JSON case recombination mutator, target c12_init)"),
 "C19": dict(level="exploration",
   text="Differential testing of persistence: generated histories are cut at a generated prefix, the VFS is saved, a fresh VFS restored and the live backends re-attached at their recorded indices; original and restored instance then receive the same probe script and the remaining suffix of the history; replies, backend call logs and mount indices must be identical. Previous-format (version 1) snapshots are produced through a cfg-guarded hook and must load and agree.",
   design="3/C19", note="INIT with an empty capability word is not generated; version-1 snapshots via hook H3; backends re-created from a deep copy of their state at the cut.",
   technique="differential property-based testing (proptest): original vs restored instance under an identical generated script; thorough adds coverage-guided fuzzing of histories (libFuzzer/ASan, JSON case recombination mutator, target c19_persist)"),
 "C05": dict(level="exploration",
   text="Model-based testing with the host kernel as reference: generated request histories run against Server<PassthroughFs> inside a chroot jail and, operation by operation, as plain system calls on a shadow copy of the tree (creation as the caller's ids). Per op the errno, attributes, data, link target, xattr values and lseek results are compared; at the end both trees are walked on the host and must be equal; after every request the serving thread's euid/egid/capabilities must be what they were. The configuration matrix (no_open, no_opendir, inode_file_handles, use_host_ino, writeback, cache policy, xattr, withheld client capabilities) is part of the generated case.",
   design="3/C05", note="Reference = kernel 6.18/ext4 in the sandbox; directories keep mode 0777; chmod/utimens not sent for symlinks; CREATE on an existing directory is an excluded input class; inode numbers only up to same-file<=>same-number.",
   technique="stateful property-based testing (proptest) with a differential oracle: same operation as a host system call on a shadow tree"),
 "C06": dict(level="exploration",
   text="Adversarial histories (names '.', '..', '', with '/', absolute and relative escapes; symlinks to the outside created before and through the server; renames of held directories followed by '..' chains; attribute, xattr, open/read/write and listing requests on symlink inodes) run in a jail whose world around /export is a sentinel tree with magic content. Oracle: sentinel snapshot unchanged, no reply carries a sentinel inode number, magic string or outside-only name, '..' at the root is the root, invalid names refused before any backend is touched (backend call log empty behind a Vfs), symlink inodes never opened. Standalone passthrough, Vfs+passthrough and Vfs+scripted backend.",
   design="3/C06", note="Runs as root in a mount-namespace + chroot jail, so even a successful escape stays inside the jail; inode-number clause only in the standalone variant.",
   technique="stateful property-based testing (proptest) with a sentinel-tree invariant and reply scanning"),
 "C08": dict(level="exploration",
   text="Reference-count model: histories weighted to lookup/create/link/readdirplus(partial)/forget/batch-forget/unlink-while-referenced/create-after-unlink are run against passthrough ({inode_file_handles} x {use_host_ino}); the model counts entries returned minus forgotten per host file (identity = (dev,ino) of the pinned mirror object). After EVERY step every inode number ever seen is probed: it answers iff its count is positive (EBADF otherwise) and describes the modelled file; one number per file and one file per number while valid; same number after re-lookup; root exempt.",
   design="3/C08", note="Known finding (listed): nodeid collision with inode_file_handles + use_host_ino on host inode reuse. In file-handle mode unlinked-but-referenced inodes may answer ESTALE/ENOMEM.",
   technique="stateful property-based testing (proptest) against a reference-count model probed after every step"),
 "C09": dict(level="exploration",
   text="Schedule exploration with a harness-owned scheduler: cfg-guarded yield points in lookup/forget park the calling thread; one thread runs at a time and the generated schedule picks the next. Quick: random schedules of 2-3 threads x 1-3 ops. Thorough: ALL schedules (stateless DFS by re-execution) of every program set with 2 threads x <=2 ops and 3 threads x 1 op, plus random larger ones. Oracle: linearizability against the sequential reference-count model (one number for the file, final count measured by forgetting until EBADF == initial + lookups - forgets, held references always resolve, no livelock).",
   design="3/C09", note="Granularity = the hook points, sequentially consistent execution; exhaustive only for the named bounded program sets in the thorough tier.",
   technique="schedule-generating property-based testing (proptest) + exhaustive schedule enumeration with a linearizability oracle"),
 "C15": dict(level="fault_enumeration",
   text="(history) open/opendir/listing/release/forget/DESTROY+INIT histories incl. deliberately wrong handle use; after the client released everything, open descriptors (/proc/self/fd) and inode/handle/cookie/mount-fd table sizes must equal a freshly started server's. (fault) every request of a generated history is served with the descriptor table plugged and RLIMIT_NOFILE allowing n more descriptors for n = 0,1,2,... until the limit no longer decides: the (n+1)-th descriptor allocation inside the server fails, for every n; the model follows the replies; same end-state comparison; a success under a fault must come with a working handle.",
   design="3/C15", note="Single-threaded jailed worker; table sizes through the read-only hook H2.",
   technique="stateful property-based testing (proptest) with enumerated EMFILE fault injection per request"),
 "C16": dict(level="exploration",
   text="Directories of 0..300 (thorough 2000) entries with names of every length are listed under generated plans: up to 40 reads on up to 3 handles (or handle-less), resuming from 0, from the handle's last entry or from ANY previously returned entry, with buffers from exactly-the-next-entry up to 64 KiB, plain or plus. Oracle relative to the first sequential pass S: the reply to 'offset of S[k]' is S[k+1..k+m]; S equals the host listing with matching types; offsets non-zero and distinct; payload within size; plus entries carry the file's attributes and exactly the delivered ones hold a reference. Passthrough, pseudo-fs and Vfs-wrapped directories.",
   design="3/C16", note="Known finding (listed): buffers with < 48 spare bytes can come back empty (dot entries). One host-kernel quirk after lseek to end-of-directory: an empty reply directly after an end-of-directory read on the same handle is retried once.",
   technique="property-based testing (proptest): generated resume plans against the sequence of a reference pass"),
 "C18": dict(level="exploration",
   text="Sealed export with files of assorted sizes; generated histories of opens/creates with every flag combination, writes at boundary offsets with arbitrary flag words (append added/removed/random), size-changing setattr, fallocate with many mode words, on handle-based and zero-message-open servers. Invariant after EVERY request: each pre-existing file has its initial size on the host. Differential against an unsealed twin: what changes a size there must be refused here; what stays within the size must be answered and take effect as on the twin.",
   design="3/C18", note="setattr carrying SIZE is refused by design; O_DIRECT transfers are not compared with the twin (alignment dependent).",
   technique="stateful property-based testing (proptest): size invariant after every step + differential against an unsealed twin"),
 "C10": dict(level="exploration",
   text="Model-based testing of the overlay: generated layer contents (files, directories, symlinks, whiteouts, opaque directories in all three xattr spellings; equal and different kinds under the same name across 1 upper + 1-3 lowers) and path-addressed operation histories. Oracle: a pure union function over the layer directories materialises the expected tree; every operation is also applied to that tree with plain system calls (the kernel is the model of an ordinary file system); after every modifying operation the tree walked THROUGH the overlay equals the reference tree walked on the host; a content+metadata snapshot of every lower directory is identical before and after; without an upper layer every modifying operation fails.",
   design="3/C10", note="Not compared: inode numbers, directory nlink/size, hard-link identity across copy-up, timestamps, owners. Lower layers contain no special files other than whiteouts; rename is not generated.",
   technique="stateful property-based testing (proptest) against a reference union model materialised on the host"),
 "C11": dict(level="exploration",
   text="C10's driver with an upper layer and an op mix weighted to delete/re-create/modify lower objects: after EVERY modifying prefix a second OverlayFs with fresh passthrough layers is started over the same directories and walked; its tree must equal the running instance's, which must equal the reference tree (so deletions stay deleted, re-created directories stay empty, copied-up objects keep type, permission bits, full prior content plus the modification, link targets, and parents' modes).",
   design="3/C11", note="Restart = new instance over the same directories; no host file system crash is modelled.",
   technique="stateful property-based testing (proptest) with a restart (new instance) differential after every prefix"),
 "C20": dict(level="exploration",
   text="Differential testing of the two dispatch paths: the byte generator of C01 feeds the same request through handle_message and async_handle_message (built with the async-io feature in a second harness crate) against fresh copies of one scripted file system implementing both traits from one script; file system call logs and reply bytes (or absence of a reply) must be identical, over a /dev/fuse stand-in and random virtio chains.",
   design="3/C20", note="Reply areas smaller than a reply header are not generated; the passthrough id of open/create (not expressible in the async API) is scripted as absent.",
   technique="differential property-based testing (proptest): sync vs async handler on identical generated bytes"),
 "C02": dict(
   level="exploration",
   text="Generated search: every opcode x boundary/random valuations of every wire field (encoded through the kernel's own struct layouts) is served by Server<Arc<MockFs>> over both transports and the logged FileSystem call is compared with a protocol-level oracle table; a wrong method, swapped/dropped argument or missing flag test shows as a mismatch. Exploration is the right level: the domain is a huge product of field values with no finite abstraction the tools here could exhaust.",
   design="3/C02",
   note="Trusts /usr/include/linux/fuse.h (7.38) for layouts and the hand-written oracle table in harness/src/reqgen.rs; SETXATTR in 8-byte compat layout; RENAME2 flags within the defined bits.",
   technique="property-based testing (proptest): structured request generator + call-log oracle, shrinking to a replay file; thorough adds coverage-guided fuzzing (libFuzzer/ASan, JSON case recombination mutator, target c02_decode)"),
}
hooks_commits = []
try:
    out = subprocess.run(["git","-C","/repo","log","--format=%h %s"],capture_output=True,text=True).stdout
    hooks_commits = [l.split()[0] for l in out.splitlines() if l.split(' ',1)[1].startswith("verif-hook:")]
except Exception:
    pass
m = {
 "version": 1,
 "setup_cmd": "cd /verif && mkdir -p abi/out && gcc -O0 -o abi/out/probe abi/probe.c && ./abi/out/probe > abi/out/layout.json && cd harness && CARGO_NET_OFFLINE=true cargo build --release --offline && cd ../harness-async && CARGO_NET_OFFLINE=true cargo build --release --offline",
 "hooks": {
   "guard": "--cfg fuse_backend_rs_verif",
   "enable": "harness/.cargo/config.toml sets rustflags = [\"--cfg\", \"fuse_backend_rs_verif\"]; every check builds /repo through the harness crate's path dependency",
   "baseline_off_cmd": "cd /repo && cargo test --workspace --no-fail-fast --offline",
   "source_commits": hooks_commits,
   "add_only": True,
 },
 "engines": [
   {"name": "fbv", "path": "harness", "serves_properties": sorted(k for k in CHECKS.keys() if k != "C20"),
    "kind_free_text": "Rust binary: proptest TestRunner driven from main(), worker fan-out over processes, kernel-header-derived wire codec, SEQPACKET /dev/fuse stand-in, hand-built virtio chains, scripted file systems, chroot jail + host-syscall reference for passthrough/overlay, harness-owned thread scheduler"},
   {"name": "fbv-async", "path": "harness-async", "serves_properties": ["C20"], "kind_free_text": "same engine and generators compiled against fuse-backend-rs with the async-io feature"},
 ],
 "checks": [],
 "not_applicable": [],
 "notes": "All checks: ./check <ID> quick|thorough; exit 0 held, 1 VIOLATION, 2 inconclusive. VERIF_SEED selects the PRNG stream. Known findings: known_findings.json.",
}
for pid in ALL:
    if pid in CHECKS:
        c = CHECKS[pid]
        m["checks"].append({
          "property_id": pid,
          "quick_cmd": "./check %s quick" % pid,
          "thorough_cmd": "./check %s thorough" % pid,
          "evidence_file": "evidence/%s.json" % pid,
          "replay_cmd_template": "./check %s --replay {path}" % pid,
          "engine": "fbv-async" if pid == "C20" else "fbv",
          "level_claimed": {"category": c["level"], "text": c["text"], "design_ref": c["design"]},
          "level_note": c["note"],
          "technique": c["technique"],
        })
    else:
        m["not_applicable"].append({"property_id": pid, "reason": "check not built yet in this round (planned with the same technique, see DESIGN.md section 3)"})
json.dump(m, open("/verif/MANIFEST.json","w"), indent=1)
print("checks:", len(m["checks"]), "n/a:", len(m["not_applicable"]))
