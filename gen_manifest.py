#!/usr/bin/env python3
"""Writes MANIFEST.json from the table below (kept in one place so it stays valid)."""
import json, subprocess
ALL = ["C%02d" % i for i in range(1, 21)]
CHECKS = {
 "C01": dict(level="exploration",
   text="Generated search over hostile request bytes (well-formed requests of all 47 opcodes, stacked mutations: length lies, opcode holes, truncation, junk, extreme u32 at any body offset, missing NULs; and random bytes) x reply capacities x both transports x scripted filesystem results. Oracle inside the case: no panic (catch_unwind), canary frames around every buffer intact, at most one reply, every reply complete (len, unique, errno range, one datagram = one write call on the SEQPACKET /dev/fuse stand-in), FORGET/BATCH_FORGET never answered, well-formed answer-requiring requests answered exactly once. Exploration: the input space is all byte strings.",
   design="3/C01", note="In-process catch_unwind + canary frames (no sanitizer in the quick tier); one SEQPACKET datagram == one write call; sound scripted filesystem.",
   technique="property-based testing (proptest) with grammar+mutation+random generators, shrinking to a replay file"),
 "C03": dict(level="exploration",
   text="Generated search: opcode x scripted filesystem result (every stat field, timeouts, flags, handles, payloads, xattr value/count, locks, statfs, dirent lists with names of every length mod 8 and requested sizes, every errno, non-OS error kinds) served over both transports; the reply is decoded with the kernel's struct layouts and compared field by field with what the filesystem returned; directory replies are re-parsed record by record; notifications checked likewise.",
   design="3/C03", note="Kernel header 7.38 + supplement for backing_id; canonical errno required only for 5 error kinds; pre-7.9 layouts not claimed.",
   technique="property-based testing (proptest): result generator + kernel-layout decoder oracle, metamorphic equality of fuse_entry_out across entry-carrying replies"),
 "C04": dict(level="exploration",
   text="Stateful model-based testing of Reader/Writer over a /dev/fuse buffer and random virtio descriptor chains (segment lengths 0/1/page+-1, 3 regions, gaps, indirect tables): op sequences incl. nested splits and splits after partial consumption are interpreted against a flat byte-vector model; after every op returned bytes, file contents and available/consumed counters are compared, over-capacity ops must fail without effect, final buffer/guest memory and datagrams must equal the model, canaries intact. FileVolatileSlice (Bytes<usize>) and File vectored I/O are compared with a Vec<u8> model.",
   design="3/C04", note="Unsplit /dev/fuse writer is written once (documented contract); cursor re-synchronised after a failed read_exact; canaries instead of a sanitizer.",
   technique="stateful property-based testing (proptest, vec(op) + interpreter) against a reference byte-stream model"),
 "C07": dict(level="exploration",
   text="Model-based testing of the VFS: histories of mount/over-mount/umount (incl. >255 mounts for index wrap-around and root mounts), LOOKUP walks, every forwarded request kind, stale-inode probes, cross-mount rename/link and consistency probes run against a Vfs with scripted tree backends; a model client_ino -> (mount, backend inode), learned from replies joined with backend call logs, decides that each request reaches exactly the owning backend with its own inode number and nobody else.",
   design="3/C07", note="Backends number entries consistently; stale numbers whose 8-bit slot was re-used are not claimed.",
   technique="stateful property-based testing (proptest) with an encoding-agnostic routing model and backend call logs"),
 "C13": dict(level="exploration",
   text="Enumerates every obligation of the ABI table: struct sizes, each named field's offset and width (Rust offset_of!/size_of vs the C compiler's offsetof/sizeof on linux/fuse.h), coverage of kernel fields, every opcode/notify/flag constant; Opcode::from is checked over u32 ranges (thorough: all 2^32 values); stat/statvfs/setattr conversions are checked on generated values incl. round trip. The finite tables are enumerated completely (exhaustive_parts in the evidence).",
   design="3/C13", note="Trusted base: installed kernel header 7.38 + 3-item supplement; committed Rust<->C name map.",
   technique="differential enumeration against a C probe + property-based testing (proptest) of conversions"),
 "C14": dict(level="exploration",
   text="Same interpreter as C07 with global and per-mount id mappings (disjoint, adjacent, overlapping, size-1, near u32::MAX) on most mounts: an arithmetic model decides, per serving mount, the caller ids and owner-ids-to-set the backend must see and every owner id the client must see (lookup, getattr, setattr, create, mkdir, mknod, symlink, readdirplus, mount roots), applied exactly once, incl. slot reuse after over-mount and index wrap-around and requests on the root node with a backend mounted at /.",
   design="3/C14", note="Valid mapping configurations only (base+range <= 2^32); mount-root attributes are those cached at mount time.",
   technique="stateful property-based testing (proptest) with an arithmetic id-mapping model and backend call logs"),
 "C17": dict(level="exploration",
   text="Guest memory with an AtomicBitmap: (a) C04's writer/reader op sequences over random chains at arbitrary page offsets, (b) whole requests through handle_message (READ via write/write_from/both/partial-then-error, READDIR(PLUS), GETXATTR, LOOKUP, error and oversize replies). Oracle: dirty page set == pages intersecting the modelled written ranges (both directions), model cross-checked by a byte diff of guest memory.",
   design="3/C17", note="4 KiB bitmap pages; written ranges for requests = reply message plus the bytes the filesystem produced.",
   technique="property-based testing (proptest) with a written-range model vs the dirty bitmap"),
 "C12": dict(level="exploration",
   text="Generated INIT requests (major, minor, flag words with/without the extended marker, extended payload present/absent/truncated) x filesystem option words against Server<MockFs>; the reply is decoded exactly as a Linux client decodes it (flags2 only with FUSE_INIT_EXT) and must equal capable & want, be laid out for the client's minor, follow the major-version rules and advertise write limits that fit the transport buffers. Layer level: Vfs (and, from the jail, PassthroughFs) with every configuration switch: advertised bits, backend-visible bits and behaviour (OPEN/OPENDIR ENOSYS iff negotiated), second INIT refused, DESTROY+INIT applies the new capabilities.",
   design="3/C12", note="capable = announced bits restricted to FsOptions::all(); pre-7.23 reply layouts compare the low 32 bits only.",
   technique="property-based testing (proptest): INIT generator + client-side decoder oracle + behavioural probes"),
 "C19": dict(level="exploration",
   text="Differential testing of persistence: generated histories are cut at a generated prefix, the VFS is saved, a fresh VFS restored and the live backends re-attached at their recorded indices; original and restored instance then receive the same probe script and the remaining suffix of the history; replies, backend call logs and mount indices must be identical. Previous-format (version 1) snapshots are produced through a cfg-guarded hook and must load and agree.",
   design="3/C19", note="INIT with an empty capability word is not generated; version-1 snapshots via hook H3; backends re-created from a deep copy of their state at the cut.",
   technique="differential property-based testing (proptest): original vs restored instance under an identical generated script"),
 "C02": dict(
   level="exploration",
   text="Generated search: every opcode x boundary/random valuations of every wire field (encoded through the kernel's own struct layouts) is served by Server<Arc<MockFs>> over both transports and the logged FileSystem call is compared with a protocol-level oracle table; a wrong method, swapped/dropped argument or missing flag test shows as a mismatch. Exploration is the right level: the domain is a huge product of field values with no finite abstraction the tools here could exhaust.",
   design="3/C02",
   note="Trusts /usr/include/linux/fuse.h (7.38) for layouts and the hand-written oracle table in harness/src/reqgen.rs; SETXATTR in 8-byte compat layout; RENAME2 flags within the defined bits.",
   technique="property-based testing (proptest): structured request generator + call-log oracle, shrinking to a replay file"),
}
hooks_commits = []
try:
    out = subprocess.run(["git","-C","/repo","log","--format=%h %s"],capture_output=True,text=True).stdout
    hooks_commits = [l.split()[0] for l in out.splitlines() if l.split(' ',1)[1].startswith("verif-hook:")]
except Exception:
    pass
m = {
 "version": 1,
 "setup_cmd": "cd /verif && mkdir -p abi/out && gcc -O0 -o abi/out/probe abi/probe.c && ./abi/out/probe > abi/out/layout.json && cd harness && CARGO_NET_OFFLINE=true cargo build --release --offline",
 "hooks": {
   "guard": "--cfg fuse_backend_rs_verif",
   "enable": "harness/.cargo/config.toml sets rustflags = [\"--cfg\", \"fuse_backend_rs_verif\"]; every check builds /repo through the harness crate's path dependency",
   "baseline_off_cmd": "cd /repo && cargo test --workspace --no-fail-fast --offline",
   "source_commits": hooks_commits,
   "add_only": True,
 },
 "engines": [
   {"name": "fbv", "path": "harness", "serves_properties": sorted(CHECKS.keys()),
    "kind_free_text": "Rust binary: proptest TestRunner driven from main(), worker fan-out over processes, kernel-header-derived wire codec, SEQPACKET /dev/fuse stand-in, hand-built virtio chains, scripted file systems"},
 ],
 "checks": [],
 "not_applicable": [],
 "notes": "All checks: ./check <ID> quick|thorough; exit 0 held, 1 VIOLATION, 2 inconclusive. VERIF_SEED selects the PRNG stream. Known findings: known_findings.json.",
}
for pid in ALL:
    if pid in CHECKS:
        c = CHECKS[pid]
        m["checks"].append({
          "property_id": pid,
          "quick_cmd": "./check %s quick" % pid,
          "thorough_cmd": "./check %s thorough" % pid,
          "evidence_file": "evidence/%s.json" % pid,
          "replay_cmd_template": "./check %s --replay {path}" % pid,
          "engine": "fbv",
          "level_claimed": {"category": c["level"], "text": c["text"], "design_ref": c["design"]},
          "level_note": c["note"],
          "technique": c["technique"],
        })
    else:
        m["not_applicable"].append({"property_id": pid, "reason": "check not built yet in this round (planned with the same technique, see DESIGN.md section 3)"})
json.dump(m, open("/verif/MANIFEST.json","w"), indent=1)
print("checks:", len(m["checks"]), "n/a:", len(m["not_applicable"]))
