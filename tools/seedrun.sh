#!/bin/bash
# tools/seedrun.sh <seed-dir-name> <check-ID>... : apply seeded/<name>/patch.diff to /repo, run the
# quick checks, undo (git checkout -- .). Prints one verdict line per check.
set -u
NAME="$1"; shift
P=/verif/seeded/$NAME/patch.diff
[ -z "$(git -C /repo status --porcelain --untracked-files=no)" ] || { echo "/repo not clean"; exit 9; }
git -C /repo apply "$P" || exit 9
trap 'git -C /repo checkout -- . ' EXIT
for ID in "$@"; do
  out=$(cd /verif && FBV_SEEDRUN=1 ./check "$ID" "${TIER:-quick}" 2>&1); rc=$?
  echo "seed=$NAME check=$ID exit=$rc $(echo "$out" | grep -m1 signature: | sed 's/^ *//')"
  # replays written by a seeded run are not findings of the real tree
  echo "$out" | grep -o 'replay=[^ ]*' | sed 's/replay=//' | while read f; do [ -n "${KEEP_REPLAY:-}" ] && cp "$f" /verif/seeded/$NAME/ ; rm -f "$f"; done
done
