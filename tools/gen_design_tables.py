#!/usr/bin/env python3
"""Fill the @@SEEDS@@ / @@MUT6@@ blocks of DESIGN.md from seeded/*/meta.json and tools/mutation_results.txt."""
import json, glob, os, re
root = os.path.dirname(os.path.dirname(os.path.abspath(__file__)))
rows = ["| seed | what the change does | needs | caught by (quick tier) | strengthened |", "|---|---|---|---|---|"]
for p in sorted(glob.glob(root + "/seeded/*/meta.json")):
    m = json.load(open(p))
    name = os.path.basename(os.path.dirname(p))
    cell = lambda t: t.replace("|", "\\|")
    rows.append("| %s | %s | %s | %s | %s |" % (name, cell(m["summary"]), cell(m["needs"]), cell("; ".join(m["caught_by"])) or "**not caught**", cell(m.get("strengthened") or "—")))
seeds = "\n".join(rows)
mut = []
res = root + "/tools/mutation_results.txt"
if os.path.exists(res):
    mut = ["Raw verdict lines of all mutation runs are in `tools/mutation_results.txt`; the C12/C20 batch:", "", "| property | mutation | verdict |", "|---|---|---|"]
    for l in open(res):
        m = re.match(r"(C12|C20) (\S+) -> mut-exit=(\d)\s*(?:signature: (\S+))?", l)
        if m:
            mut.append("| %s | %s | %s |" % (m.group(1), m.group(2), "caught: " + m.group(4) if m.group(3) == "1" else "not caught (exit %s)" % m.group(3)))
s = open(root + "/DESIGN.md").read()
def put(tag, text):
    global s
    a, b = "<!-- %s -->" % tag, "<!-- /%s -->" % tag
    if "@@%s@@" % tag in s:
        s = s.replace("@@%s@@" % tag, a + "\n" + text + "\n" + b)
    else:
        s = s[: s.index(a)] + a + "\n" + text + "\n" + s[s.index(b):]
put("SEEDS", seeds)
put("MUT6", "\n".join(mut))
open(root + "/DESIGN.md", "w").write(s)
