#!/bin/bash
# tools/mut.sh <ID> <tier> <python-edit-script | patch.diff>
# Sensitivity protocol: run a check against a *scratch copy* of /repo with a
# mutation applied. Never touches /repo. Prints the check's output; expects exit 1.
#   the edit script is a python file executed with cwd = the scratch copy
#   a .diff/.patch file is applied with git apply
set -u
ID="$1"; TIER="$2"; EDIT="$3"
M=/tmp/fbv-mut
mkdir -p $M/root/abi
rsync -a --delete --exclude target --exclude .git /repo/ $M/repo/
cd $M/repo
case "$EDIT" in
  *.py) python3 "$EDIT" || { echo "edit failed"; exit 3; } ;;
  *) patch -p1 -s < "$EDIT" || { echo "patch failed"; exit 3; } ;;
esac
rsync -a /verif/abi/ $M/root/abi/
cp /verif/known_findings.json $M/root/
H=/verif/harness
[ "$ID" = "C20" ] && H=/verif/harness-async
BIN=fbv; [ "$ID" = "C20" ] && BIN=fbv-async
TD=$M/target; [ "$ID" = "C20" ] && TD=$M/target-async
(cd $H && CARGO_NET_OFFLINE=true cargo build --release --offline --config "paths=[\"$M/repo\"]" --target-dir $TD 2>&1 | grep -E "^error" -A8 | head -30)
[ -x $TD/release/$BIN ] || { echo "build failed"; exit 2; }
cd $M/root
FBV_ROOT=$M/root timeout 1800 $TD/release/$BIN check "$ID" "$TIER" 2>&1 | grep -v "Aborting shrinking"
echo "mut-exit=${PIPESTATUS[0]}"
