#!/bin/bash
# tools/mutrun.sh <ID>:<mutation.py> ...   runs each, prints a one-line verdict
for spec in "$@"; do
  id="${spec%%:*}"; m="${spec#*:}"
  out=$(/verif/tools/mut.sh "$id" quick /verif/tools/mutations/$m 2>&1)
  code=$(echo "$out" | grep -o "mut-exit=[0-9]*" | tail -1)
  sig=$(echo "$out" | grep "signature:" | head -1)
  echo "$id $m -> $code $sig"
  [ -z "$code" ] && echo "$out" | tail -5
done
