#!/bin/bash
# tools/seedall.sh : every stored seeded change against its primary check(s); one line each -> seeded/RESULTS.txt
cd /verif
: > seeded/RESULTS.txt
for d in seeded/*/; do
  n=$(basename "$d")
  prop=$(python3 -c "import json;print(json.load(open('seeded/$n/meta.json'))['breaks'].split('/')[-1])")
  extra=""
  case "$n" in C10b|C11b) prop=C11;; esac
  tools/seedrun.sh "$n" $prop 2>&1 | tee -a seeded/RESULTS.txt
done
