#!/bin/bash
# tools/silence.sh <seed>... : every quick check on the unchanged tree for each seed; prints only alarms and a summary
cd /verif
for s in "$@"; do
  for id in C01 C02 C03 C04 C05 C06 C07 C08 C09 C10 C11 C12 C13 C14 C15 C16 C17 C18 C19 C20; do
    out=$(VERIF_SEED=$s ./check $id quick 2>&1); rc=$?
    if [ $rc != 0 ]; then echo "ALARM seed=$s $id rc=$rc"; echo "$out" | grep -E "signature|message|VIOLATION|INCONCLUSIVE" | cut -c1-400; fi
  done
  echo "seed $s done"
done
