#!/bin/bash
# fuzz/campaign.sh <ID> <target> <runs-per-job> <jobs>
# Coverage-guided libFuzzer campaign (ASan, debug assertions) over one target of fuzz/fuzz, run as the
# second stage of `./check <ID> thorough`. The oracle is inside the target (the same run() the
# proptest check uses), so a finding surfaces as a crash whose message carries the signature.
#   exit 0  no finding                       exit 1  VIOLATION line printed, artifact copied to replays/
#   exit 2  build failure / oom / timeout (inconclusive)
set -u
ROOT="$(cd "$(dirname "$0")/.." && pwd)"
ID="$1"; TARGET="$2"; RUNS="${3:-200000}"; JOBS="${4:-8}"
SEED="${VERIF_SEED:-1}"; [ "$SEED" = "0" ] && SEED=1
export FBV_ROOT="$ROOT" CARGO_NET_OFFLINE=true FBV_FUZZ_PROP="$ID"
export RUSTFLAGS="--cfg fuse_backend_rs_verif"
# ASan keeps its detection (overflow, use-after-free, double free) but not the per-allocation stack
# unwinding and the 256 MB quarantine, which cost ~10x on history-shaped cases; leaks are not a verdict
export ASAN_OPTIONS="quarantine_size_mb=16:malloc_context_size=0:detect_leaks=0:${ASAN_OPTIONS:-}"
BIN="$ROOT/fuzz/fuzz/target/x86_64-unknown-linux-gnu/release/$TARGET"
LOG="$(mktemp /var/tmp/fbv-fuzzbuild-XXXXXX.log)"
if ! (cd "$ROOT/fuzz" && flock "$ROOT/fuzz/.build.lock" cargo +nightly fuzz build "$TARGET" >"$LOG" 2>&1); then
  tail -30 "$LOG" >&2; rm -f "$LOG"
  echo "INCONCLUSIVE: fuzz target build failed" >&2
  exit 2
fi
rm -f "$LOG"
WORK="$(mktemp -d /dev/shm/fbv-fuzz-XXXXXX)"
trap 'rm -rf "$WORK"' EXIT
T0=$(date +%s)
pids=()
case "$TARGET" in c01_msg|c04_rw) JSON=0; MAXLEN=4096;; *) JSON=1; MAXLEN=16384;; esac
for j in $(seq 1 "$JOBS"); do
  mkdir -p "$WORK/c$j" "$WORK/a$j"
  if [ "$JSON" = 1 ]; then
    # JSON targets: committed seeds plus fresh draws from the property's own strategy
    cp "$ROOT/fuzz/seeds/$TARGET"/* "$WORK/c$j/" 2>/dev/null
    FBV_CORPUS_SEED=$((SEED * 100 + j)) "$ROOT/harness/target/release/fbv" corpus "$TARGET" "$WORK/fresh$j" 300 >/dev/null 2>&1
    for f in "$WORK/fresh$j"/*; do [ -f "$f" ] && mv "$f" "$WORK/c$j/fresh-$(basename "$f")"; done
  elif [ $((j % 2)) = 1 ] && [ -d "$ROOT/fuzz/seeds/$TARGET" ]; then
    # byte targets: odd jobs start from the committed seeds, even jobs from an empty corpus
    cp "$ROOT/fuzz/seeds/$TARGET"/* "$WORK/c$j/" 2>/dev/null
  fi
  "$BIN" "$WORK/c$j" -runs="$RUNS" -seed=$((SEED * 100 + j)) -len_control=0 -max_len=$MAXLEN -timeout=120 -rss_limit_mb=4096 -detect_leaks=0 \
     -artifact_prefix="$WORK/a$j/" -print_final_stats=1 >"$WORK/log$j" 2>&1 &
  pids+=($!)
done
rc=0
for p in "${pids[@]}"; do wait "$p" || rc=1; done
T1=$(date +%s)
execs=0; cov=0; corpus=0
for j in $(seq 1 "$JOBS"); do
  e=$(grep -a "stat::number_of_executed_units" "$WORK/log$j" | awk '{print $2}'); execs=$((execs + ${e:-0}))
  c=$(grep -a " cov: " "$WORK/log$j" | tail -1 | sed -E 's/.* cov: ([0-9]+).*/\1/'); [ "${c:-0}" -gt "$cov" ] && cov=$c
  corpus=$((corpus + $(ls "$WORK/c$j" | wc -l)))
done
status=0
viol=0
for j in $(seq 1 "$JOBS"); do
  for a in "$WORK/a$j"/*; do
    [ -f "$a" ] || continue
    case "$(basename "$a")" in
      slow-unit-*) ;;   # a report about speed, not a verdict
      crash-*)
        h=$(sha1sum "$a" | cut -c1-16)
        mkdir -p "$ROOT/replays"
        [ -f "$ROOT/replays/$ID-fuzz-$h.bin" ] && continue
        cp "$a" "$ROOT/replays/$ID-fuzz-$h.bin"
        grep -a -m1 "VIOLATION property=" "$WORK/log$j" | sed 's/^/  /' | cut -c1-600
        grep -a -m1 "ERROR: AddressSanitizer" "$WORK/log$j" | sed 's/^/  /'
        echo "VIOLATION property=$ID replay=$ROOT/replays/$ID-fuzz-$h.bin"
        viol=$((viol + 1)); status=1 ;;
      *)
        echo "INCONCLUSIVE: libFuzzer reported $(basename "$a") (resource limit, not a verdict)" >&2
        [ "$status" = 0 ] && status=2 ;;
    esac
  done
done
if [ "$rc" != 0 ] && [ "$status" = 0 ]; then
  echo "INCONCLUSIVE: a fuzz job ended abnormally without an artifact" >&2
  tail -5 "$WORK"/log* >&2
  status=2
fi
echo "$ID fuzz[$TARGET]: executions=$execs edges=$cov corpus_files=$corpus jobs=$JOBS wall=$((T1 - T0))s findings=$viol"
python3 - "$ROOT/evidence/$ID.json" "$TARGET" "$execs" "$cov" "$corpus" "$JOBS" "$((T1 - T0))" "$viol" <<'EOF'
import json, sys
p, target, execs, cov, corpus, jobs, wall, viol = sys.argv[1:]
try:
    ev = json.load(open(p))
except Exception:
    sys.exit(0)
ev["coverage"]["fuzz"] = {"engine": "libFuzzer (cargo-fuzz, ASan, debug assertions)", "target": target, "executions": int(execs),
                          "edges_covered": int(cov), "corpus_files": int(corpus), "jobs": int(jobs), "wall_s": int(wall), "findings": int(viol),
                          "oracle": "same run() as the proptest check, inside the target; known findings tolerated by signature"}
ev["wall_s"] = ev.get("wall_s", 0) + int(wall)
ev["violations"] = ev.get("violations", 0) + int(viol)
json.dump(ev, open(p, "w"), indent=1)
EOF
exit $status
