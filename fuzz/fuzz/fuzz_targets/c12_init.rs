#![no_main]
use fbv_fuzz::{hook, json_crossover, json_mutate, report};
use libfuzzer_sys::{fuzz_crossover, fuzz_mutator, fuzz_target, Corpus};
use fbv_fuzz::props::c12;

fuzz_mutator!(|data: &mut [u8], size: usize, max_size: usize, seed: u32| { json_mutate(data, size, max_size, seed) });
fuzz_crossover!(|d1: &[u8], d2: &[u8], out: &mut [u8], seed: u32| { json_crossover(d1, d2, out, seed) });

fuzz_target!(|data: &[u8]| -> Corpus {
    hook("C12");
    let Ok(case) = serde_json::from_slice::<c12::SrvCase>(data) else { return Corpus::Reject };
    report("C12", c12::run_srv(&case).fails);
    Corpus::Keep
});
