#![no_main]
use fbv_fuzz::props::c01::{run, Cap, Case, Src};
use fbv_fuzz::mockfs::{ErrSpec, MockRes, ReadMode};
use fbv_fuzz::{chain_from, report, Bytes};
use libfuzzer_sys::fuzz_target;

// layout: [cap selector][transport/chain][result selector][mode] then request bytes.
// mode 0: the rest is the raw request; mode k>0: a header with a *correct* length and the
// opcode number k is put in front of the rest, so that the fuzzer reaches the handlers at once.
fuzz_target!(|data: &[u8]| {
    fbv_fuzz::hook("C01");
    let mut b = Bytes::new(data);
    let cap = match b.u8() {
        x if x < 160 => Cap::Exact(x as u32),
        160..=199 => Cap::Rel(0),
        200..=219 => Cap::Rel(64),
        220..=229 => Cap::Rel(-1),
        230..=239 => Cap::Exact(4096),
        _ => Cap::Exact(70000),
    };
    let virtio = chain_from(&mut b);
    let res = match b.u8() % 6 {
        0 => MockRes::Default,
        1 => MockRes::Err(ErrSpec::Os(1 + (b.u8() % 130) as i32)),
        2 => MockRes::Err(ErrSpec::Kind(b.u8())),
        3 => MockRes::Read { data: vec![0x41; b.u16() as usize % 9000], mode: ReadMode::WriteFrom },
        4 => MockRes::Data(vec![0x42; b.u16() as usize % 5000]),
        _ => MockRes::Read { data: vec![0x43; b.u16() as usize % 9000], mode: ReadMode::PartialThenErr },
    };
    let vu = b.u8() & 1 == 1;
    let mode = b.u8();
    let rest = b.rest();
    let bytes = if mode == 0 || mode > 52 {
        rest.to_vec()
    } else {
        let mut v = Vec::with_capacity(40 + rest.len());
        v.extend_from_slice(&((40 + rest.len().saturating_sub(24)) as u32).to_le_bytes());
        v.extend_from_slice(&(mode as u32).to_le_bytes());
        // unique, nodeid, uid, gid, pid, padding come from the input as well
        let mut hdr = [0u8; 32];
        let n = rest.len().min(24);
        hdr[..n].copy_from_slice(&rest[..n]);
        v.extend_from_slice(&hdr);
        if rest.len() > 24 {
            v.extend_from_slice(&rest[24..]);
        }
        v
    };
    let case = Case { src: Src::Raw(bytes), cap, virtio, res, vu };
    let out = run(&case);
    report("C01", out.fails);
});
