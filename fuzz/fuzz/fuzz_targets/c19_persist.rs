#![no_main]
use fbv_fuzz::{hook, json_crossover, json_mutate, report};
use libfuzzer_sys::{fuzz_crossover, fuzz_mutator, fuzz_target, Corpus};
use fbv_fuzz::props::c19;

fuzz_mutator!(|data: &mut [u8], size: usize, max_size: usize, seed: u32| { json_mutate(data, size, max_size, seed) });
fuzz_crossover!(|d1: &[u8], d2: &[u8], out: &mut [u8], seed: u32| { json_crossover(d1, d2, out, seed) });

fuzz_target!(|data: &[u8]| -> Corpus {
    hook("C19");
    let Ok(case) = serde_json::from_slice::<c19::Case>(data) else { return Corpus::Reject };
    if !c19::in_domain(&case) {
        return Corpus::Reject;
    }
    // index wrap-around bursts take ~1 s each under ASan: left to the proptest tiers
    if case.ops.iter().any(|o| matches!(o, c19::Op::Burst(n) if *n > 12)) {
        return Corpus::Reject;
    }
    report("C19", c19::run(&case).fails);
    Corpus::Keep
});
