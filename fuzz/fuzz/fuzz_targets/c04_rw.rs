#![no_main]
use fbv_fuzz::props::c04::{run, Case, ROp, Rel, WOp};
use fbv_fuzz::{chain_from, report, Bytes};
use libfuzzer_sys::fuzz_target;

fn rel(b: &mut Bytes) -> Rel {
    match b.u8() % 8 {
        0 | 1 | 2 => Rel::Frac(b.u16()),
        3 | 4 => Rel::Fit,
        5 => Rel::Over(b.u8() % 3),
        _ => Rel::Abs(b.u16() % 300),
    }
}

fuzz_target!(|data: &[u8]| {
    fbv_fuzz::hook("C04");
    let mut b = Bytes::new(data);
    let kind = b.u8();
    let virtio = chain_from(&mut b);
    let size = [0u32, 1, 15, 16, 17, 40, 128, 4095, 4096, 4097, 600, 20000][(b.u8() % 12) as usize];
    let case = if kind & 1 == 0 {
        let seed = b.u32();
        let mut ops = vec![];
        while b.left() > 0 && ops.len() < 40 {
            let r = b.u8();
            ops.push(match b.u8() % 8 {
                0 => ROp::Read(r, rel(&mut b)),
                1 => ROp::ReadExact(r, rel(&mut b)),
                2 => ROp::ReadObj(r, b.u8()),
                3 => ROp::ReadTo(r, rel(&mut b)),
                4 => ROp::ReadToAt(r, rel(&mut b), b.u16() % 5000),
                5 => ROp::ReadExactTo(r, rel(&mut b)),
                6 => ROp::Split(r, rel(&mut b)),
                _ => ROp::Counters(r),
            });
        }
        Case::Reader { virtio, total: size, seed, ops }
    } else {
        let commit = (b.u8(), if b.u8() & 1 == 1 { Some(b.u8()) } else { None });
        let mut ops = vec![];
        while b.left() > 0 && ops.len() < 40 {
            let w = b.u8();
            ops.push(match b.u8() % 10 {
                0 => WOp::Write(w, rel(&mut b), b.u32()),
                1 => WOp::WriteAll(w, rel(&mut b), b.u32()),
                2 => {
                    let n = b.u8() % 5;
                    WOp::WriteVectored(w, (0..n).map(|_| rel(&mut b)).collect(), b.u32())
                }
                3 => WOp::WriteObj(w, b.u8(), b.u32()),
                4 => WOp::WriteFrom(w, rel(&mut b), rel(&mut b), b.u32()),
                5 => WOp::WriteFromAt(w, rel(&mut b), rel(&mut b), b.u16(), b.u32()),
                6 => WOp::WriteAllFrom(w, rel(&mut b), rel(&mut b), b.u32()),
                7 => WOp::Split(w, rel(&mut b)),
                8 => WOp::SplitInside(w, b.u16()),
                _ => WOp::Counters(w),
            });
        }
        Case::Writer { virtio, cap: size, ops, commit }
    };
    let out = run(&case);
    // the same run also carries C17's dirty-page clause
    report("C04", out.fails);
});
