#![no_main]
use fbv_fuzz::{hook, json_crossover, json_mutate, report};
use libfuzzer_sys::{fuzz_crossover, fuzz_mutator, fuzz_target, Corpus};
use fbv_fuzz::props::c02;

fuzz_mutator!(|data: &mut [u8], size: usize, max_size: usize, seed: u32| { json_mutate(data, size, max_size, seed) });
fuzz_crossover!(|d1: &[u8], d2: &[u8], out: &mut [u8], seed: u32| { json_crossover(d1, d2, out, seed) });

fuzz_target!(|data: &[u8]| -> Corpus {
    hook("C02");
    let Ok(mut case) = serde_json::from_slice::<c02::Case>(data) else { return Corpus::Reject };
    if !fbv_fuzz::reqgen::consistent(&case.req) {
        return Corpus::Reject;
    }
    // dependent fields (WRITE size = payload length, counts, ...) as a kernel sets them
    fbv_fuzz::reqgen::normalise(&mut case.req);
    report("C02", c02::run(&case).fails);
    Corpus::Keep
});
