#![allow(dead_code, unused_parens, unused_imports)]
//! libFuzzer/ASan front end for the byte-level properties: the targets decode the fuzzer's bytes
//! into the same Case types the proptest checks use and run the same oracles.
#[path = "../../../harness/src/codec.rs"]
pub mod codec;
#[path = "../../../harness/src/engine.rs"]
pub mod engine;
#[path = "../../../harness/src/jail.rs"]
pub mod jail;
#[path = "../../../harness/src/mockfs.rs"]
pub mod mockfs;
#[path = "../../../harness/src/ptdrv.rs"]
pub mod ptdrv;
#[path = "../../../harness/src/reqgen.rs"]
pub mod reqgen;
#[path = "../../../harness/src/transport.rs"]
pub mod transport;
#[path = "../../../harness/src/vfsdrv.rs"]
pub mod vfsdrv;
// the whole property tree of the harness (its sub-modules resolve next to that mod.rs)
#[path = "../../../harness/src/props/mod.rs"]
pub mod props;

use engine::Fail;

/// Known findings (status "known") are tolerated in-target so that a campaign does not
/// rediscover one crash forever; everything else aborts with the signature in the message.
pub fn report(prop: &str, fails: Vec<Fail>) {
    static KNOWN: std::sync::OnceLock<engine::Known> = std::sync::OnceLock::new();
    let known = KNOWN.get_or_init(engine::Known::load);
    // a campaign run for one property ignores what belongs to another one sharing the target
    if std::env::var("FBV_FUZZ_PROP").is_ok_and(|p| p != prop) {
        return;
    }
    for f in fails {
        if known.is_known(prop, &f.sig).is_none() {
            // the harness' panic hook is quiet: say what failed before aborting the fuzzer
            eprintln!("VIOLATION property={} signature={} message={}", prop, f.sig, f.msg);
            std::process::abort();
        }
    }
}

/// cargo-fuzz builds with panic=abort, so the harness' catch_unwind never sees a panic of the code
/// under test: name it from the hook instead (a panic in there IS a violation of C01/C04).
pub fn hook(prop: &'static str) {
    static ONCE: std::sync::Once = std::sync::Once::new();
    ONCE.call_once(|| {
        std::panic::set_hook(Box::new(move |info| {
            let loc = info.location().map(|l| format!("{}:{}", l.file(), l.line())).unwrap_or_default();
            let msg = info.payload().downcast_ref::<&str>().map(|s| s.to_string()).or_else(|| info.payload().downcast_ref::<String>().cloned()).unwrap_or_default();
            eprintln!("VIOLATION property={} signature=panic/{} message={}", prop, loc, msg);
        }));
    });
}

// ---------------------------------------------------------------- structure-aware JSON fuzzing
//
// The history-shaped properties take a serde `Case`. Their fuzz inputs are the JSON text of a
// case (the same text a replay file holds). The seed corpus is drawn from the property's own
// proptest strategy (`fbv corpus <target> <dir> <n>`, fresh draws per campaign), and a custom
// mutator RECOMBINES what the strategy produced, guided by libFuzzer's coverage feedback:
//   * every JSON node gets a type path (object keys / enum variant names; positions inside
//     tuple-like arrays kept, positions inside vectors of composites dropped);
//   * a scalar may only be replaced by a scalar that was observed at the same type path (in this
//     input or in any input seen earlier by the mutator), a composite only by a composite of the
//     same type path and the same enum variant; booleans flip;
//   * vectors of composites lose, duplicate, swap, repeat or splice elements, within the length
//     bounds observed for that type path.
// So every field keeps values its generator can produce and the mutants stay inside the (product)
// domain of the strategy: generator soundness carries over. Inputs that do not deserialize are
// rejected. proptest's pass-through RNG was tried first and dropped: every `prop_oneof!` forks the
// stream and halves it, it runs dry (zeros) after a few dozen choices and rand's uniform sampler
// then spins forever.

use serde_json::Value;
use std::cell::RefCell;
use std::collections::HashMap;

struct Xs(u64);
impl Xs {
    fn next(&mut self) -> u64 {
        self.0 ^= self.0 << 13;
        self.0 ^= self.0 >> 7;
        self.0 ^= self.0 << 17;
        self.0
    }
    fn below(&mut self, n: usize) -> usize {
        if n == 0 {
            0
        } else {
            (self.next() % n as u64) as usize
        }
    }
}

#[derive(Default)]
struct Pool {
    /// type path -> values observed there (scalars and composites), bounded
    vals: HashMap<String, Vec<Value>>,
    /// type path of a vector of composites -> (min, max) observed length
    lens: HashMap<String, (usize, usize)>,
}

thread_local! {
    static POOL: RefCell<Pool> = RefCell::new(Pool::default());
}

fn is_scalar(v: &Value) -> bool {
    !matches!(v, Value::Array(_) | Value::Object(_))
}

fn kind(v: &Value) -> u8 {
    match v {
        Value::Null => 0,
        Value::Bool(_) => 1,
        Value::Number(_) => 2,
        Value::String(_) => 3,
        Value::Array(_) => 4,
        Value::Object(o) if o.len() == 1 => 5,
        Value::Object(_) => 6,
    }
}

/// same kind, and for single-key objects (externally tagged enums) the same variant
fn compatible(a: &Value, b: &Value) -> bool {
    if kind(a) != kind(b) {
        return false;
    }
    match (a, b) {
        (Value::Object(x), Value::Object(y)) => x.keys().eq(y.keys()),
        // strings are payload bytes (hex) or identifiers; only hex payloads are interchangeable
        (Value::String(x), Value::String(y)) => is_hex(x) && is_hex(y),
        // tuples keep their arity; vectors of composites are interchangeable
        (Value::Array(x), Value::Array(y)) => {
            let (tx, ty) = (x.iter().any(is_scalar), y.iter().any(is_scalar));
            tx == ty && (!tx || x.len() == y.len())
        }
        _ => true,
    }
}

fn is_hex(s: &str) -> bool {
    s.len() % 2 == 0 && s.bytes().all(|b| b.is_ascii_hexdigit())
}

/// visit every node with its type path
fn walk(v: &mut Value, path: &str, out: &mut Vec<(String, *mut Value)>) {
    out.push((path.to_string(), v as *mut Value));
    match v {
        Value::Array(a) => {
            let tuple_like = a.iter().any(is_scalar);
            for (i, x) in a.iter_mut().enumerate() {
                let p = if tuple_like { format!("{}/{}", path, i) } else { format!("{}/*", path) };
                walk(x, &p, out);
            }
        }
        Value::Object(o) => {
            for (k, x) in o.iter_mut() {
                walk(x, &format!("{}/{}", path, k), out);
            }
        }
        _ => {}
    }
}

fn learn(nodes: &[(String, *mut Value)]) {
    POOL.with(|p| {
        let mut p = p.borrow_mut();
        for (path, ptr) in nodes {
            let v = unsafe { &**ptr };
            if let Value::Array(a) = v {
                if !a.iter().any(is_scalar) {
                    let e = p.lens.entry(path.clone()).or_insert((a.len(), a.len()));
                    e.0 = e.0.min(a.len());
                    e.1 = e.1.max(a.len());
                }
            }
            let bucket = p.vals.entry(path.clone()).or_default();
            if bucket.len() < 48 {
                if !bucket.contains(v) {
                    bucket.push(v.clone());
                }
            }
        }
    });
}

/// one random domain-preserving edit of the JSON tree; false when nothing could be changed
fn mutate_tree(root: &mut Value, r: &mut Xs) -> bool {
    let mut nodes: Vec<(String, *mut Value)> = vec![];
    walk(root, "", &mut nodes);
    learn(&nodes);
    for _ in 0..24 {
        let (path, p) = &nodes[r.below(nodes.len())];
        // SAFETY: the pointers come from one exclusive walk of `root`; exactly one node is edited
        // and `nodes` is not used again afterwards
        let v = unsafe { &mut **p };
        if let Value::Bool(b) = v {
            *b = !*b;
            return true;
        }
        let structural = matches!(v, Value::Array(a) if !a.iter().any(is_scalar)) && r.below(3) != 0;
        if structural {
            let Value::Array(a) = v else { unreachable!() };
            let (lo, hi) = POOL.with(|p| p.borrow().lens.get(path).copied()).unwrap_or((a.len(), a.len()));
            let elem_path = format!("{}/*", path);
            match r.below(6) {
                0 if a.len() > lo => {
                    let i = r.below(a.len());
                    a.remove(i);
                }
                1 if !a.is_empty() && a.len() < hi => {
                    let i = r.below(a.len());
                    let x = a[i].clone();
                    let j = r.below(a.len() + 1);
                    a.insert(j, x);
                }
                2 if a.len() >= 2 => {
                    let i = r.below(a.len());
                    let j = r.below(a.len());
                    if i == j {
                        continue;
                    }
                    a.swap(i, j);
                }
                3 if a.len() > lo => {
                    let i = lo.max(r.below(a.len()));
                    a.truncate(i);
                }
                4 if a.len() < hi => {
                    // splice in an element seen at this position type in another input
                    let cand = POOL.with(|p| p.borrow().vals.get(&elem_path).and_then(|b| if b.is_empty() { None } else { Some(b[r.below(b.len())].clone()) }));
                    let Some(x) = cand else { continue };
                    let j = r.below(a.len() + 1);
                    a.insert(j, x);
                }
                5 if a.len() >= 2 && a.len() < hi => {
                    let i = r.below(a.len());
                    let n = (1 + r.below(3)).min(a.len() - i).min(hi - a.len());
                    let run: Vec<Value> = a[i..i + n].to_vec();
                    a.extend(run);
                }
                _ => continue,
            }
            return true;
        }
        // replacement by a value of the same type path
        let cand = POOL.with(|p| {
            let p = p.borrow();
            let b = p.vals.get(path)?;
            let ok: Vec<&Value> = b.iter().filter(|c| compatible(c, v) && *c != &*v).collect();
            if ok.is_empty() {
                None
            } else {
                Some(ok[r.below(ok.len())].clone())
            }
        });
        if let Some(c) = cand {
            *v = c;
            return true;
        }
    }
    false
}

/// custom mutator body shared by the JSON targets
pub fn json_mutate(data: &mut [u8], size: usize, max_size: usize, seed: u32) -> usize {
    // an input that is not JSON (libFuzzer's empty start input) stays as it is: byte-level mutants
    // would only be rejected
    let Ok(mut v) = serde_json::from_slice::<Value>(&data[..size]) else { return size };
    let mut r = Xs(((seed as u64) << 1 | 1).wrapping_mul(0x9E3779B97F4A7C15) | 1);
    let rounds = 1 + r.below(3);
    let mut changed = false;
    for _ in 0..rounds {
        changed |= mutate_tree(&mut v, &mut r);
    }
    if !changed {
        return size;
    }
    let Ok(out) = serde_json::to_vec(&v) else { return size };
    if out.len() > max_size || out.len() > data.len() {
        return size;
    }
    data[..out.len()].copy_from_slice(&out);
    out.len()
}

/// libFuzzer's own crossover would splice JSON text at byte offsets; teach the pool instead and
/// return the first input with one element of the second spliced in by `mutate_tree`
pub fn json_crossover(d1: &[u8], d2: &[u8], out: &mut [u8], seed: u32) -> usize {
    if let Ok(mut v2) = serde_json::from_slice::<Value>(d2) {
        let mut nodes = vec![];
        walk(&mut v2, "", &mut nodes);
        learn(&nodes);
    }
    let n = d1.len().min(out.len());
    out[..n].copy_from_slice(&d1[..n]);
    if n < d1.len() {
        return 0;
    }
    let max = out.len();
    json_mutate(out, n, max, seed)
}

pub struct Bytes<'a> {
    pub b: &'a [u8],
    pub pos: usize,
}
impl<'a> Bytes<'a> {
    pub fn new(b: &'a [u8]) -> Self {
        Bytes { b, pos: 0 }
    }
    pub fn u8(&mut self) -> u8 {
        let v = self.b.get(self.pos).copied().unwrap_or(0);
        self.pos += 1;
        v
    }
    pub fn u16(&mut self) -> u16 {
        self.u8() as u16 | (self.u8() as u16) << 8
    }
    pub fn u32(&mut self) -> u32 {
        self.u16() as u32 | (self.u16() as u32) << 16
    }
    pub fn rest(&mut self) -> &'a [u8] {
        let r = if self.pos < self.b.len() { &self.b[self.pos..] } else { &[] };
        self.pos = self.b.len();
        r
    }
    pub fn left(&self) -> usize {
        self.b.len().saturating_sub(self.pos)
    }
}

pub fn chain_from(b: &mut Bytes) -> Option<transport::ChainSpec> {
    let sel = b.u8();
    if sel & 1 == 0 {
        return None;
    }
    let nr = 1 + (b.u8() % 5) as usize;
    let nw = 1 + (b.u8() % 5) as usize;
    let mut seg = |b: &mut Bytes| transport::Seg { len: [0u32, 1, 7, 16, 17, 40, 128, 4095, 4096, 4097, 300, 9000][(b.u8() % 12) as usize], gap: (b.u8() as u16) * 3, region: b.u8() % 3 };
    let readable = (0..nr).map(|_| seg(b)).collect();
    let writable = (0..nw).map(|_| seg(b)).collect();
    Some(transport::ChainSpec { readable, writable, indirect: sel & 2 != 0, page_off: b.u16() % 4096 })
}
