#![allow(dead_code, unused_parens, unused_imports)]
//! libFuzzer/ASan front end for the byte-level properties: the targets decode the fuzzer's bytes
//! into the same Case types the proptest checks use and run the same oracles.
#[path = "../../../harness/src/codec.rs"]
pub mod codec;
#[path = "../../../harness/src/engine.rs"]
pub mod engine;
#[path = "../../../harness/src/mockfs.rs"]
pub mod mockfs;
#[path = "../../../harness/src/reqgen.rs"]
pub mod reqgen;
#[path = "../../../harness/src/transport.rs"]
pub mod transport;
pub mod props {
    #[path = "../../../../harness/src/props/c01.rs"]
    pub mod c01;
    #[path = "../../../../harness/src/props/c02.rs"]
    pub mod c02;
    #[path = "../../../../harness/src/props/c03.rs"]
    pub mod c03;
    #[path = "../../../../harness/src/props/c04.rs"]
    pub mod c04;
}

use engine::Fail;

/// Known findings (status "known") are tolerated in-target so that a campaign does not
/// rediscover one crash forever; everything else aborts with the signature in the message.
pub fn report(prop: &str, fails: Vec<Fail>) {
    static KNOWN: std::sync::OnceLock<engine::Known> = std::sync::OnceLock::new();
    let known = KNOWN.get_or_init(engine::Known::load);
    for f in fails {
        if known.is_known(prop, &f.sig).is_none() {
            // the harness' panic hook is quiet: say what failed before aborting the fuzzer
            eprintln!("VIOLATION property={} signature={} message={}", prop, f.sig, f.msg);
            std::process::abort();
        }
    }
}

/// cargo-fuzz builds with panic=abort, so the harness' catch_unwind never sees a panic of the code
/// under test: name it from the hook instead (a panic in there IS a violation of C01/C04).
pub fn hook(prop: &'static str) {
    static ONCE: std::sync::Once = std::sync::Once::new();
    ONCE.call_once(|| {
        std::panic::set_hook(Box::new(move |info| {
            let loc = info.location().map(|l| format!("{}:{}", l.file(), l.line())).unwrap_or_default();
            let msg = info.payload().downcast_ref::<&str>().map(|s| s.to_string()).or_else(|| info.payload().downcast_ref::<String>().cloned()).unwrap_or_default();
            eprintln!("VIOLATION property={} signature=panic/{} message={}", prop, loc, msg);
        }));
    });
}

pub struct Bytes<'a> {
    pub b: &'a [u8],
    pub pos: usize,
}
impl<'a> Bytes<'a> {
    pub fn new(b: &'a [u8]) -> Self {
        Bytes { b, pos: 0 }
    }
    pub fn u8(&mut self) -> u8 {
        let v = self.b.get(self.pos).copied().unwrap_or(0);
        self.pos += 1;
        v
    }
    pub fn u16(&mut self) -> u16 {
        self.u8() as u16 | (self.u8() as u16) << 8
    }
    pub fn u32(&mut self) -> u32 {
        self.u16() as u32 | (self.u16() as u32) << 16
    }
    pub fn rest(&mut self) -> &'a [u8] {
        let r = if self.pos < self.b.len() { &self.b[self.pos..] } else { &[] };
        self.pos = self.b.len();
        r
    }
    pub fn left(&self) -> usize {
        self.b.len().saturating_sub(self.pos)
    }
}

pub fn chain_from(b: &mut Bytes) -> Option<transport::ChainSpec> {
    let sel = b.u8();
    if sel & 1 == 0 {
        return None;
    }
    let nr = 1 + (b.u8() % 5) as usize;
    let nw = 1 + (b.u8() % 5) as usize;
    let mut seg = |b: &mut Bytes| transport::Seg { len: [0u32, 1, 7, 16, 17, 40, 128, 4095, 4096, 4097, 300, 9000][(b.u8() % 12) as usize], gap: (b.u8() as u16) * 3, region: b.u8() % 3 };
    let readable = (0..nr).map(|_| seg(b)).collect();
    let writable = (0..nw).map(|_| seg(b)).collect();
    Some(transport::ChainSpec { readable, writable, indirect: sel & 2 != 0, page_off: b.u16() % 4096 })
}
