// placeholder: cargo-fuzz wants a parent project; the fuzz crate is in ./fuzz
