//! The scripted filesystem answers through the async trait exactly what it answers through the
//! sync one (same script, same log format), so any difference observed comes from the server.
use crate::mockfs::MockFs;
use async_trait::async_trait;
use fuse_backend_rs::abi::fuse_abi::{stat64, CreateIn, OpenOptions, SetattrValid};
use fuse_backend_rs::api::filesystem::{AsyncFileSystem, AsyncZeroCopyReader, AsyncZeroCopyWriter, Context, Entry, FileSystem, ZeroCopyReader, ZeroCopyWriter};
use std::ffi::CStr;
use std::io;
use std::time::Duration;

#[async_trait]
impl AsyncFileSystem for MockFs {
    async fn async_lookup(&self, ctx: &Context, parent: u64, name: &CStr) -> io::Result<Entry> {
        self.lookup(ctx, parent, name)
    }
    async fn async_getattr(&self, ctx: &Context, inode: u64, handle: Option<u64>) -> io::Result<(stat64, Duration)> {
        self.getattr(ctx, inode, handle)
    }
    async fn async_setattr(&self, ctx: &Context, inode: u64, attr: stat64, handle: Option<u64>, valid: SetattrValid) -> io::Result<(stat64, Duration)> {
        self.setattr(ctx, inode, attr, handle, valid)
    }
    async fn async_open(&self, ctx: &Context, inode: u64, flags: u32, fuse_flags: u32) -> io::Result<(Option<u64>, OpenOptions)> {
        self.open(ctx, inode, flags, fuse_flags).map(|(h, o, _)| (h, o))
    }
    async fn async_create(&self, ctx: &Context, parent: u64, name: &CStr, args: CreateIn) -> io::Result<(Entry, Option<u64>, OpenOptions)> {
        self.create(ctx, parent, name, args).map(|(e, h, o, _)| (e, h, o))
    }
    async fn async_read(
        &self,
        ctx: &Context,
        inode: u64,
        handle: u64,
        w: &mut (dyn AsyncZeroCopyWriter + Send),
        size: u32,
        offset: u64,
        lock_owner: Option<u64>,
        flags: u32,
    ) -> io::Result<usize> {
        let mut shim = WShim(w);
        self.read(ctx, inode, handle, &mut shim, size, offset, lock_owner, flags)
    }
    async fn async_write(
        &self,
        ctx: &Context,
        inode: u64,
        handle: u64,
        r: &mut (dyn AsyncZeroCopyReader + Send),
        size: u32,
        offset: u64,
        lock_owner: Option<u64>,
        delayed_write: bool,
        flags: u32,
        fuse_flags: u32,
    ) -> io::Result<usize> {
        let mut shim = RShim(r);
        self.write(ctx, inode, handle, &mut shim, size, offset, lock_owner, delayed_write, flags, fuse_flags)
    }
    async fn async_fsync(&self, ctx: &Context, inode: u64, datasync: bool, handle: u64) -> io::Result<()> {
        self.fsync(ctx, inode, datasync, handle)
    }
    async fn async_fallocate(&self, ctx: &Context, inode: u64, handle: u64, mode: u32, offset: u64, length: u64) -> io::Result<()> {
        self.fallocate(ctx, inode, handle, mode, offset, length)
    }
    async fn async_fsyncdir(&self, ctx: &Context, inode: u64, datasync: bool, handle: u64) -> io::Result<()> {
        self.fsyncdir(ctx, inode, datasync, handle)
    }
}

struct WShim<'a>(&'a mut (dyn AsyncZeroCopyWriter + Send));
impl io::Write for WShim<'_> {
    fn write(&mut self, buf: &[u8]) -> io::Result<usize> {
        self.0.write(buf)
    }
    fn flush(&mut self) -> io::Result<()> {
        self.0.flush()
    }
}
impl ZeroCopyWriter for WShim<'_> {
    fn write_from(&mut self, f: &mut dyn fuse_backend_rs::file_traits::FileReadWriteVolatile, count: usize, off: u64) -> io::Result<usize> {
        self.0.write_from(f, count, off)
    }
    fn available_bytes(&self) -> usize {
        self.0.available_bytes()
    }
}
struct RShim<'a>(&'a mut (dyn AsyncZeroCopyReader + Send));
impl io::Read for RShim<'_> {
    fn read(&mut self, buf: &mut [u8]) -> io::Result<usize> {
        self.0.read(buf)
    }
}
impl ZeroCopyReader for RShim<'_> {
    fn read_to(&mut self, f: &mut dyn fuse_backend_rs::file_traits::FileReadWriteVolatile, count: usize, off: u64) -> io::Result<usize> {
        self.0.read_to(f, count, off)
    }
}
