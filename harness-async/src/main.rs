#![allow(dead_code, unused_parens, unused_imports)]
//! C20 harness: the same engine and generators as ../harness, built against
//! fuse-backend-rs with the async-io feature (which changes BackendFileSystem's super-trait).
#[path = "../../harness/src/codec.rs"]
mod codec;
#[path = "../../harness/src/engine.rs"]
mod engine;
#[path = "../../harness/src/mockfs.rs"]
mod mockfs;
mod mockfs_async;
mod props;
#[path = "../../harness/src/reqgen.rs"]
mod reqgen;
#[path = "../../harness/src/transport.rs"]
mod transport;

use engine::Tier;

fn main() {
    let args: Vec<String> = std::env::args().collect();
    if args.len() < 3 {
        eprintln!("usage: fbv-async check C20 quick|thorough | replay C20 <file> | worker ...");
        std::process::exit(2);
    }
    let props = props::all();
    let find = |id: &str| -> &dyn engine::Prop {
        props.iter().find(|p| p.id() == id).map(|b| b.as_ref()).unwrap_or_else(|| {
            eprintln!("unknown property {}", id);
            std::process::exit(2)
        })
    };
    let code = match args[1].as_str() {
        "check" => {
            let tier = match args.get(3).map(|s| s.as_str()).or(std::env::var("VERIF_TIER").ok().as_deref()) {
                Some("thorough") => Tier::Thorough,
                _ => Tier::Quick,
            };
            engine::run_check(find(&args[2]), tier)
        }
        "worker" => engine::run_worker(find(&args[2]), &args[3..]),
        "replay" => engine::run_replay(find(&args[2]), &args[3]),
        _ => 2,
    };
    std::process::exit(code);
}
