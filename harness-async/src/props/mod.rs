#[path = "../../../harness/src/props/c01.rs"]
pub mod c01;
#[path = "../../../harness/src/props/c02.rs"]
pub mod c02;
#[path = "../../../harness/src/props/c03.rs"]
pub mod c03;
pub mod c20;
use crate::engine::Prop;
pub fn all() -> Vec<Box<dyn Prop>> {
    vec![Box::new(c20::C20)]
}
