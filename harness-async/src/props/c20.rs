//! C20 — the asynchronous request path behaves exactly like the synchronous one.
use crate::engine::*;
use crate::mockfs::{MockFs, MockRes};
use crate::props::c01::{self, materialise, Cap, Case, Src};
use crate::transport::{self, canary, ChainSpec, Gm, NoVu, VirtioEnv, CANARY_PAD};
use fuse_backend_rs::api::server::Server;
use fuse_backend_rs::async_runtime;
use fuse_backend_rs::transport::{FsCacheReqHandler, FuseBuf, FuseDevWriter, Reader, VirtioFsWriter, Writer};
use proptest::prelude::*;
use serde_json::Value;
use std::os::unix::fs::FileExt;
use std::os::unix::io::AsRawFd;
use std::sync::Arc;

/// Observable outcome of one handler run: reply bytes (or none) and the filesystem call log.
#[derive(Debug, PartialEq)]
struct Obs {
    reply: Option<Vec<u8>>,
    calls: Vec<Value>,
    ok: bool,
}

/// C01's case plus the protocol version negotiated before the request (reply layouts and the
/// negative-lookup rule depend on it)
#[derive(Clone, Debug, serde::Serialize, serde::Deserialize)]
pub struct Case20 {
    #[serde(flatten)]
    pub inner: Case,
    #[serde(default)]
    pub init_minor: Option<u32>,
}

fn run_one(bytes: &[u8], cap: usize, virtio: &Option<ChainSpec>, res: &MockRes, vu: bool, asynchronous: bool, init_minor: Option<u32>) -> Obs {
    let fs = Arc::new(MockFs::new(res.clone()));
    let srv = Server::new(fs.clone());
    if let Some(m) = init_minor {
        // the same (synchronous) INIT on both servers: only the request under test differs in path
        let body = crate::codec::enc("fuse_init_in", &[("major", 7), ("minor", m as u64), ("max_readahead", 4096), ("flags", 0)]);
        let init = crate::codec::request(&crate::codec::Hdr { opcode: crate::codec::op("INIT"), unique: 1, nodeid: 0, uid: 0, gid: 0, pid: 0 }, &body[..16]);
        let _ = transport::serve_fusedev(&srv, &init, 256, false);
    }
    match virtio {
        None => {
            // a truncated regular file stands in for /dev/fuse: the async writer uses pwrite(fd, .., 0)
            let file = crate::mockfs::memfd_with(&[]);
            let mut rbuf = bytes.to_vec();
            let mut wbuf = vec![0u8; cap];
            let ret = {
                let reader: Reader<'_, ()> = Reader::from_fuse_buffer(FuseBuf::new(&mut rbuf)).unwrap();
                let writer = FuseDevWriter::<()>::new(file.as_raw_fd(), &mut wbuf).unwrap();
                let mut novu = NoVu;
                let vu_req: Option<&mut dyn FsCacheReqHandler> = if vu { Some(&mut novu) } else { None };
                if asynchronous {
                    async_runtime::with_runtime(|rt| rt.block_on(async { unsafe { srv.async_handle_message(reader, Writer::FuseDev(writer), vu_req, None).await } }))
                } else {
                    srv.handle_message(reader, Writer::FuseDev(writer), vu_req, None)
                }
            };
            let len = file.metadata().map(|m| m.len() as usize).unwrap_or(0);
            let mut data = vec![0u8; len];
            let _ = file.read_exact_at(&mut data, 0);
            Obs { reply: if len == 0 { None } else { Some(data) }, calls: fs.calls(), ok: ret.is_ok() }
        }
        Some(spec) => {
            let mut s = spec.clone();
            s.fit_readable(bytes.len());
            s.fit_writable(cap);
            let mut env = VirtioEnv::new(&s, bytes);
            let ret = {
                let chain = env.chain();
                let mem: &'static Gm = env.mem_static();
                match (Reader::from_descriptor_chain(mem, chain.clone()), VirtioFsWriter::new(mem, chain)) {
                    (Ok(r), Ok(w)) => {
                        let mut novu = NoVu;
                        let vu_req: Option<&mut dyn FsCacheReqHandler> = if vu { Some(&mut novu) } else { None };
                        if asynchronous {
                            async_runtime::with_runtime(|rt| rt.block_on(async { unsafe { srv.async_handle_message(r, Writer::VirtioFs(w), vu_req, None).await } })).is_ok()
                        } else {
                            srv.handle_message(r, Writer::VirtioFs(w), vu_req, None).is_ok()
                        }
                    }
                    _ => false,
                }
            };
            let now = env.wbytes();
            let before = env.wbytes_before();
            let last = now.iter().zip(before.iter()).rposition(|(a, b)| a != b);
            Obs { reply: last.map(|l| now[..=l].to_vec()), calls: fs.calls(), ok: ret }
        }
    }
}

pub fn run(cs20: &Case20) -> Outcome {
    let cs = &cs20.inner;
    let mut out = Outcome::default();
    let bytes = materialise(&cs.src);
    let room = match &cs.src {
        Src::Well(r) | Src::Mut(r, _) => 16 + r.reply_room(),
        Src::Raw(_) => 16 + 128,
    };
    // the property quantifies over request bytes and transports; a reply area that cannot even
    // hold a reply header is not a configuration either handler can answer in
    let cap = match cs.cap {
        Cap::Exact(n) => n as usize,
        Cap::Rel(d) => (room as i64 + d as i64).max(0) as usize,
    }
    .max(16);
    // the async filesystem API has no way to return a passthrough (backing) id: script it as absent
    let res = match &cs.res {
        MockRes::Open { fh, opts, .. } => MockRes::Open { fh: *fh, opts: *opts, passthrough: None },
        MockRes::Create { entry, fh, opts, .. } => MockRes::Create { entry: entry.clone(), fh: *fh, opts: *opts, passthrough: None },
        other => other.clone(),
    };
    let a = run_one(&bytes, cap, &cs.virtio, &res, cs.vu, false, cs20.init_minor);
    let b = run_one(&bytes, cap, &cs.virtio, &res, cs.vu, true, cs20.init_minor);
    out.class(match cs20.init_minor {
        None => "version:default",
        Some(m) if m < 4 => "version:<7.4",
        Some(m) if m < 9 => "version:7.4..7.8",
        Some(_) => "version:>=7.9",
    });
    let opcode = if bytes.len() >= 8 { u32::from_le_bytes([bytes[4], bytes[5], bytes[6], bytes[7]]) } else { u32::MAX };
    let opname = crate::reqgen::OPS.iter().find(|o| crate::codec::op(o.op) == opcode).map(|o| o.op).unwrap_or("?");
    out.class(format!("op:{}", opname));
    out.class(if cs.virtio.is_some() { "transport:virtio" } else { "transport:fusedev" });
    out.nontrivial = !a.calls.is_empty() || !b.calls.is_empty();
    let len = if bytes.len() >= 4 { u32::from_le_bytes([bytes[0], bytes[1], bytes[2], bytes[3]]) } else { 0 };
    let oversize = len > (1 << 20) + 4096;
    if a.calls != b.calls {
        let write_size_limit = opname == "WRITE" && b.calls.iter().all(|c| c["m"] == "id_remap") && !a.calls.iter().all(|c| c["m"] == "id_remap");
        out.fail(
            format!("async/{}/calls-differ{}", opname, if write_size_limit { ":write-size-rejected-before-filesystem" } else { "" }),
            format!("sync handler called {:?}, async handler called {:?}", a.calls, b.calls),
        );
    } else if a.reply != b.reply {
        let tag = if oversize && (opname == "FORGET" || opname == "BATCH_FORGET") {
            ":oversize-forget-answered"
        } else if cap < 16 {
            ":reply-room-below-header"
        } else {
            ""
        };
        out.fail(
            format!("async/{}/reply-differs{}", opname, tag),
            format!(
                "sync reply {:?}, async reply {:?}",
                a.reply.as_ref().map(|r| crate::mockfs::hex(&r[..r.len().min(48)])),
                b.reply.as_ref().map(|r| crate::mockfs::hex(&r[..r.len().min(48)]))
            ),
        );
    }
    out
}

fn strategy(tier: Tier) -> BoxedStrategy<Case20> {
    (c01::strategy_pub(tier), prop_oneof![3 => Just(None), 2 => (0u32..40).prop_map(Some)]).prop_map(|(inner, init_minor)| Case20 { inner, init_minor }).boxed()
}

pub struct C20;

impl Prop for C20 {
    fn id(&self) -> &'static str {
        "C20"
    }
    fn meta(&self) -> Meta {
        Meta {
            rule: "C01's byte generator (well-formed requests of all 47 opcodes, stacked mutations, random bytes) x reply capacities x transport (regular file standing in for /dev/fuse because the async writer uses pwrite(fd,..,0); random virtio chains) x scripted filesystem results x protocol version negotiated beforehand (none, or INIT 7.0..7.39 sent to both servers); the same bytes go through handle_message and async_handle_message against fresh copies of one scripted filesystem that implements both traits from the same script; oracle: identical filesystem call logs (async methods identified with their sync counterparts) and identical reply bytes or identical absence of a reply; non-trivial = a handler reached the filesystem in at least one of the two; distinct = distinct serialized case",
            assumptions: vec![
                "built as a second crate (harness-async) with fuse-backend-rs/async-io; futures are driven by the crate's own async_runtime".into(),
                "fields the async filesystem API cannot express (the passthrough id of open/create) are scripted as absent".into(),
            ],
            ..Meta::default()
        }
    }
    fn worker(&self, w: &WorkerCtx) -> WorkerResult {
        let n = w.share(w.tier.pick(40_000, 1_200_000));
        drive(w, "C20", "msg", n, strategy(w.tier), run)
    }
    fn replay(&self, _kind: &str, case: &Value) -> Vec<Fail> {
        run(&serde_json::from_value(case.clone()).expect("case")).fails
    }
}
